"""Clone / Copy (C07): clone() is the same variant with each field produced by its method or
its own Clone::clone applied once; clone_from(a, b) leaves a == b.clone(); with Copy the
type is Copy and clone is a plain copy."""
from .emit import Unit, hdr, conj, dedup, trait_of

COVERS = ["Clone", "Copy"]


def is_copy(P):
    return bool(P.s("clone", "copy", False))


def bitwise(P):
    """Copy educed and no custom clone method anywhere in the type: clone() is a plain copy that
    calls no Clone impl; with a method in use clone() is field-wise even for a Copy type"""
    return is_copy(P) and not any(f.s("clone", "method") for v in P.variants for f in v.fields)


def verus(P, impls, u, prop="C07"):
    ims = [im for im in impls if trait_of(im) == "Clone"]
    if len(ims) != 1:
        u.skip_verus = "expected one Clone impl"
        return u
    if not P.variants:
        u.skip_verus = "empty enum"
        return u
    im = ims[0]
    ty = P.ty_generic()
    g, w, wf = hdr(im, ty)
    arms = []
    for v in P.variants:
        ts = []
        for f in v.fields:
            m = f.s("clone", "method")
            if m:
                ts.append("r%d == %s_spec(x%d)" % (f.idx, m, f.idx))
            elif bitwise(P):
                ts.append("r%d == x%d" % (f.idx, f.idx))
            else:
                ts.append("cloned(x%d, r%d)" % (f.idx, f.idx))
        arms.append("(%s, %s) => %s," % (P.pat(v, "x"), P.pat(v, "r"), conj(ts)))
    u.verus_items.append("pub open spec fn clone_oracle%s(x: &%s, r: &%s) -> bool %s {\n    match (*x, *r) {\n        %s\n        _ => false,\n    }\n}\n"
                         % (g, ty, ty, wf, "\n        ".join(arms)))
    u.verus_edits[("Clone", "clone")] = "clone_oracle({p0}, &r)"
    u.verus_drop.add(("Clone", "clone_from"))
    u.verus_obls["%s::clone" % P.name] = ("%s/%s/Clone::clone/ensures" % (prop, P.pid),
                                          "clone(x) = r with match (x, r) { %s _ => false }" % " ".join(arms))
    return u


def kani(P, u, prop):
    if not P.variants:
        return
    # expected value + structural equality + expected per-slot clone counts
    sarms, earms, carms, marms = [], [], [], []
    for v in P.variants:
        ts = ["*x%d == *y%d" % (f.idx, f.idx) for f in v.fields]
        sarms.append("(%s, %s) => %s," % (P.pat(v, "x"), P.pat(v, "y"), conj(ts)))
        vals = []
        cnt = []
        for f in v.fields:
            m = f.s("clone", "method")
            ity = P.inst_ty(f.ty)
            if m:
                vals.append("%s(x%d)" % (m, f.idx))
            elif ity.startswith("crate::m::Ctr<"):
                vals.append("crate::m::Ctr(x%d.0)" % f.idx)
                if not bitwise(P):
                    cnt.append(ity[len("crate::m::Ctr<"):-1])
            else:
                vals.append("*x%d" % f.idx)
        earms.append("%s => %s," % (P.pat(v, "x"), P.build(v, vals)))
        exp = ["0u8"] * 6
        for c in cnt:
            exp[int(c)] = "%su8" % (int(exp[int(c)][:-2]) + 1)
        carms.append("%s => [%s]," % (P.pat(v, "_c", only=set()), ", ".join(exp)))
        marms.append("%s => %d," % (P.pat(v, "_c", only=set()), 0 if bitwise(P) else sum(1 for f in v.fields if f.s("clone", "method"))))
    u.kani_oracle.append("pub fn same(x: &TI, y: &TI) -> bool {\n    match (x, y) {\n        %s\n        _ => false,\n    }\n}\n" % "\n        ".join(sarms))
    u.kani_oracle.append("/// the value clone() must return (built without calling any Clone impl)\npub fn clone_spec(x: &TI) -> TI {\n    match x {\n        %s\n    }\n}\n" % "\n        ".join(earms))
    u.kani_oracle.append("/// how often each counted field slot's own Clone::clone must run\npub fn clone_counts(x: &TI) -> [u8; 6] {\n    match x {\n        %s\n    }\n}\n" % "\n        ".join(carms))
    u.kani_oracle.append("/// how often a custom clone method must run\npub fn method_calls(x: &TI) -> u8 {\n    match x {\n        %s\n    }\n}\n" % "\n        ".join(marms))
    copy_stmt = ('{ use crate::src::{IsCopy, IsNotCopy}; assert!((&crate::src::Probe::<TI>(core::marker::PhantomData)).is_copy(), "contract: with Copy educed the type is Copy"); }'
                 if is_copy(P) else "")
    u.kani_harness.append("""
#[kani::proof]
pub fn clone_h() {
    let a = oracle::mk(&mut KaniSrc);
    crate::m::ctr_reset();
    let r = Clone::clone(&a);
    let counts = crate::m::ctr_counts();
    let mc = crate::m::mcalls();
    assert!(oracle::same(&r, &oracle::clone_spec(&a)), "contract: clone() == field-wise clone / method of the same variant");
    assert!(counts == oracle::clone_counts(&a), "contract: each field's own Clone::clone runs exactly once (never with Copy)");
    assert!(mc == oracle::method_calls(&a), "contract: each custom clone method runs exactly once");
    %s
    kani::cover!(true);
}
#[kani::proof]
pub fn clone_from_h() {
    let mut a = oracle::mk(&mut KaniSrc); let b = oracle::mk(&mut KaniSrc);
    crate::m::ctr_reset();
    Clone::clone_from(&mut a, &b);
    let (counts, mc) = (crate::m::ctr_counts(), crate::m::mcalls());
    assert!(oracle::same(&a, &oracle::clone_spec(&b)), "contract: after a.clone_from(&b), a == b.clone()");
    assert!(counts == oracle::clone_counts(&b) && mc == oracle::method_calls(&b), "contract: clone_from clones each field of the source exactly once (its own Clone or the custom method)");
    kani::cover!(true);
}
""" % copy_stmt)
    u.kani_obls["clone_h"] = ("%s/%s/Clone::clone/contract" % (prop, P.pid), "clone() == clone_spec(a) and per-slot clone counts == expected")
    u.kani_obls["clone_from_h"] = ("%s/%s/Clone::clone_from/contract" % (prop, P.pid), "after a.clone_from(&b): a == clone_spec(b) and every field of b was cloned exactly once, for all (a, b)")
    u.replay.append('{ let a = oracle::mk(s); let b = oracle::mk(s);\n'
                    '    crate::m::ctr_reset(); let r = Clone::clone(&a); let counts = crate::m::ctr_counts();\n'
                    '    chk(out, "a.clone() == clone_spec(a)", oracle::same(&r, &oracle::clone_spec(&a)), true);\n'
                    '    chk(out, "clone counts", counts, oracle::clone_counts(&a));\n'
                    '    let mut a2 = oracle::clone_spec(&a); crate::m::ctr_reset(); Clone::clone_from(&mut a2, &b); let (c2, m2) = (crate::m::ctr_counts(), crate::m::mcalls());\n'
                    '    chk(out, "after a.clone_from(&b): a == clone_spec(b)", oracle::same(&a2, &oracle::clone_spec(&b)), true);\n'
                    '    chk(out, "clone_from: own-Clone counts of the source fields", c2, oracle::clone_counts(&b)); chk(out, "clone_from: custom method calls", m2, oracle::method_calls(&b)); }')
