// `#[educe(Hash())]` on a union: educe must answer with a spanned diagnostic
// ("... use `#[educe(Hash(unsafe))]` ..."), never with a proc-macro panic.
use educe::Educe;
#[derive(Educe)]
#[educe(Hash())]
pub union U { a: u8, b: u8 }
