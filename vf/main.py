"""CLI driver: ./check <Cxx> [--tier quick|thorough] [--replay file] [--rebaseline]"""
import argparse, json, os, re, sys, time, shutil, subprocess
from . import run as runlib, fam as famlib, families, props

HERE = os.path.dirname(os.path.dirname(os.path.abspath(__file__)))


def load_known():
    p = os.path.join(HERE, "known_findings.json")
    if not os.path.exists(p):
        return {"findings": [], "fixed": []}
    return json.load(open(p))


def main(argv=None):
    ap = argparse.ArgumentParser()
    ap.add_argument("prop")
    ap.add_argument("--tier", default=os.environ.get("VERIF_TIER", "quick"))
    ap.add_argument("--replay")
    ap.add_argument("--rebaseline", action="store_true")
    ap.add_argument("--only", help="comma separated program ids (debug)")
    ap.add_argument("--no-kani", action="store_true")
    ap.add_argument("--no-verus", action="store_true")
    a = ap.parse_args(argv)
    if a.replay:
        return do_replay(a.replay)
    tier = a.tier if a.tier in ("quick", "thorough") else "quick"
    seed = int(os.environ.get("VERIF_SEED", "0") or 0)
    spec = props.PROPS[a.prop]
    t0 = time.time()
    if "custom" in spec:
        return spec["custom"](a.prop, tier, seed, a)
    programs = spec["family"](tier, seed)
    if a.only:
        keep = set(a.only.split(","))
        programs = [p for p in programs if p.pid in keep or (p.canary_of in keep)]
    work = os.path.join(HERE, "work", a.prop)
    os.makedirs(work, exist_ok=True)
    job = runlib.Job(a.prop, tier, seed, programs, work)
    if "setup_job" in spec:
        spec["setup_job"](job)
    job.make_units()
    job.write_family()
    ok = job.fam.check_native()
    if not ok:
        runlib.eprint("UNDECIDED: " + job.fam.fatal)
        write_evidence(job, spec, a, t0, fatal=job.fam.fatal)
        return 2
    if not job.fam.expand():
        runlib.eprint("UNDECIDED: " + job.fam.fatal)
        write_evidence(job, spec, a, t0, fatal=job.fam.fatal)
        return 2
    if not a.no_verus and spec.get("verus", True):
        job.run_verus()
    if not a.no_kani and spec.get("kani", True):
        job.run_kani()
    if "aux" in spec and not a.only:
        spec["aux"](job)
    return conclude(job, spec, a, t0)


def conclude(job, spec, a, t0):
    prop = job.prop
    known = load_known()
    kf = [k for k in known.get("findings", []) if k["property"] == prop]
    violations, undecided, known_hit = [], [], []
    kani_failed_pids = {r["pid"] for r in job.results.values() if r["engine"] == "kani" and r["status"] == "failed"}
    for oname, r in sorted(job.results.items()):
        if r["status"] == "failed":
            hit = [k for k in kf if k["obligation"] == oname or re.fullmatch(k.get("obligation_re", "$^"), oname)]
            if hit:
                known_hit.append((oname, r, hit[0]))
                continue
            if r["engine"] == "verus" and r["pid"] not in kani_failed_pids:
                # A failed Verus proof alone means *undecided* (the solver may simply lack a spec for a construct the
                # generated code now uses).  It becomes a violation only when corroborated: Kani refutes an obligation
                # of the same program, or a concrete failing input is found on the really compiled derive.
                r["replay_path"] = make_replay(job, oname, r, force_search=True)
                if not r.get("replayed"):
                    r2 = dict(r, status="undecided",
                              detail="Verus could not prove this obligation, Kani proves the program's concrete twin (or has no harness for it) and the native search found no failing input: not a verdict. Verus said: " + runlib._short(r.get("detail", ""), 700))
                    undecided.append((oname, r2))
                    continue
            violations.append((oname, r))
        elif r["status"] != "proved":
            undecided.append((oname, r))
    # a program whose extracted text the Verus front end cannot ingest (unsupported construct after a change of
    # the generated code) is NOT undecided if Kani fully decided it: the property was explored and held on it.
    # It stays undecided when there is no Kani side for it (e.g. Debug) or Kani did not prove everything.
    kani_by_pid = {}
    for oname, r in job.results.items():
        if r["engine"] == "kani":
            kani_by_pid.setdefault(r["pid"], []).append(r["status"])
    job.verus_only_rejected = {}
    job.verus_rejected_kani_ok = {}
    for pid, why in job.verus_rejected.items():
        Pc = job.fam.programs.get(pid)
        if Pc is not None and Pc.canary_of is not None:
            continue        # a canary the Verus front end cannot ingest is simply not evaluated by that engine
        sts = kani_by_pid.get(pid, [])
        if sts and all(x == "proved" for x in sts):
            job.verus_rejected_kani_ok[pid] = why
        else:
            job.verus_only_rejected[pid] = why
    # A program that only Verus decides and whose extracted text the front end now rejects has lost obligations that
    # were discharged on the unchanged tree.  That alone is undecided; it is a violation when, in addition, the native
    # replay shows the really compiled derive disagreeing with the oracle on a concrete input (and that oracle was
    # checked against the unchanged tree when the baseline was recorded).
    base_path0 = os.path.join(HERE, "baseline", "%s.%s.json" % (prop, job.tier))
    base0 = json.load(open(base_path0)) if os.path.exists(base_path0) else {}
    for pid, why in list(job.verus_only_rejected.items()):
        Pc = job.fam.programs.get(pid)
        lost = sorted(n for n, e in base0.get("obligations", {}).items() if e == "verus" and n.split("/")[1] == pid)
        if Pc is None or not lost or pid not in base0.get("native_ok", []) or not Pc.tags.get("replay") or kani_by_pid.get(pid):
            continue
        if SEARCH_BUDGET[0] <= 0:
            continue
        r = {"status": "failed", "engine": "verus", "pid": pid, "program": Pc.note,
             "contract": "discharged on the unchanged tree (committed baseline)",
             "detail": "this obligation was discharged on the unchanged tree; the extracted text is now outside the verifier's reach: " + runlib._short(why, 600)}
        r["replay_path"] = make_replay(job, lost[0], r)
        if r.get("replayed"):
            job.results[lost[0]] = r
            violations.append((lost[0], r))
            del job.verus_only_rejected[pid]
    for pid, why in list(job.fam.dropped.items()) + list(job.verus_only_rejected.items()):
        undecided.append(("%s/%s" % (prop, pid), {"status": "undecided", "detail": why, "engine": "-", "pid": pid}))
    if job.verus_rejected_kani_ok:
        runlib.eprint("NOTE %s: Verus front end rejected the extracted text of %d program(s) (unsupported construct, not a verdict); Kani decided all of them: %s"
                      % (prop, len(job.verus_rejected_kani_ok), sorted(job.verus_rejected_kani_ok)[:12]))
    # canaries: every canary obligation that is about the mutated contract must be refuted
    canary_bad = []
    n_canary_fail = 0
    canary_groups = {}
    for oname, r in job.canaries.items():
        canary_groups.setdefault((r["pid"], r["engine"]), []).append(r["status"])
    for (pid, eng), sts in list(canary_groups.items()):
        Pc = job.fam.programs.get(pid)
        if Pc is not None and eng not in Pc.tags.get("canary_engines", [eng]):
            del canary_groups[(pid, eng)]
            continue
        if "failed" in sts:
            n_canary_fail += 1
        else:
            canary_bad.append("%s(%s): %s" % (pid, eng, sts))
    if job.canaries and canary_bad:
        undecided.append(("%s/canaries" % prop, {"status": "undecided", "engine": "-", "pid": "-",
                          "detail": "must-fail canary was not refuted (contract not enforced?): %s" % canary_bad}))
    # baseline
    base_path = os.path.join(HERE, "baseline", "%s.%s.json" % (prop, job.tier))
    names = sorted(job.results)
    if a.rebaseline:
        os.makedirs(os.path.dirname(base_path), exist_ok=True)
        json.dump({"property": prop, "tier": job.tier, "obligations": {n: job.results[n]["engine"] for n in names},
                   "native_ok": native_selfcheck(job, kani_by_pid)},
                  open(base_path, "w"), indent=0, sort_keys=True)
    base_note = None
    if os.path.exists(base_path) and not a.only and job.seed == 0:
        base = json.load(open(base_path))["obligations"]
        missing = sorted(set(base) - set(names))
        if getattr(job, "aux_dropped", None):
            missing = [m for m in missing if "/aux/" not in m]
        okp = set(getattr(job, "verus_rejected_kani_ok", {}))
        missing = [m for m in missing if not (m.split("/")[1] in okp and base.get(m) == "verus")]
        extra = sorted(set(names) - set(base))
        # obligations lost because their program was dropped are already undecided
        if missing or extra:
            base_note = "obligation set differs from committed baseline: missing=%s extra=%s" % (missing[:8], extra[:8])
            undecided.append(("%s/baseline" % prop, {"status": "undecided", "engine": "-", "pid": "-", "detail": base_note}))
    elif not a.only and job.seed == 0:
        base_note = "no committed baseline for this tier"
    n_obl = len(job.results)
    if n_obl == 0:
        undecided.append(("%s/none" % prop, {"status": "undecided", "engine": "-", "pid": "-", "detail": "zero obligations generated"}))
    # replays + output
    rc = 0
    for oname, r, k in known_hit:
        print("KNOWN-FINDING: property=%s %s %s" % (prop, oname, k.get("what", "")))
    for oname, r in violations:
        path = r.get("replay_path") or make_replay(job, oname, r)
        tail = "" if r.get("replayed") else " no-failing-input-found"
        print("VIOLATION property=%s replay=%s obligation=%s%s" % (prop, path, oname, tail))
        rc = 1
    for oname, r in undecided:
        runlib.eprint("UNDECIDED %s [%s]: %s" % (oname, r.get("engine"), runlib._short(r.get("detail", ""), 600)))
    if rc == 0 and undecided:
        rc = 2
    write_evidence(job, spec, a, t0, violations=violations, undecided=undecided, known_hit=known_hit,
                   n_canary_fail=n_canary_fail, base_note=base_note)
    runlib.eprint("%s tier=%s: %d obligations, %d proved, %d violations, %d undecided, %d known; canaries refuted %d/%d; %.0fs"
                  % (prop, job.tier, n_obl, sum(1 for r in job.results.values() if r["status"] == "proved"),
                     len(violations), len(undecided), len(known_hit), n_canary_fail, len(canary_groups), time.time() - t0))
    return rc


def native_selfcheck(job, kani_by_pid):
    """run at --rebaseline (unchanged tree, everything proved): for every program that only Verus decides and that
    has a native replay, the native oracle must agree with the really compiled derive on a few hundred inputs.
    Only such programs may later turn a lost Verus obligation into a violation through a native mismatch."""
    ok = []
    for pid, P in job.fam.programs.items():
        if P.canary_of is not None or not P.tags.get("replay") or pid in job.fam.dropped or kani_by_pid.get(pid):
            continue
        rec, r = {}, {}
        try:
            _native(job, P, ["search", "400", "11"], rec, r, "self-check")
        except Exception:
            continue
        if not r.get("replayed") and not rec.get("replay_error"):
            ok.append(pid)
    return sorted(ok)


# ---------------------------------------------------------------------------------
SEARCH_BUDGET = [int(os.environ.get("VERIF_SEARCHES", "16"))]
PLAYBACK_BUDGET = [int(os.environ.get("VERIF_PLAYBACKS", "2"))]


def make_replay(job, oname, r, force_search=False):
    """write the replay file for a failed obligation.  Input sources, in order: Kani's
    concrete playback of the failing harness of the same program (the concrete twin for a
    Verus failure), replayed natively through the same constructors; then a native
    edge-biased search on the really compiled derive against the oracle."""
    rdir = os.path.join(HERE, "replays", job.prop)
    os.makedirs(rdir, exist_ok=True)
    path = os.path.join(rdir, re.sub(r"[^A-Za-z0-9_.-]+", "_", oname) + ".json")
    rec = {"property": job.prop, "obligation": oname, "engine": r["engine"], "program": r.get("program"),
           "pid": r["pid"], "contract": r.get("contract"), "verifier_output": r.get("detail"),
           "tier": job.tier, "seed": job.seed}
    P = job.fam.programs.get(r["pid"])
    if P is not None:
        rec["program_source"] = P.typedef(True)
    harness = None
    if P is not None:
        for u in job.units.get(P.pid, []):
            for h, (on, _) in u.kani_obls.items():
                rr = job.results.get(on)
                if rr and rr["status"] == "failed" and (on == oname or (r["engine"] == "verus" and harness is None)):
                    harness = "%s::h::%s" % (P.pid, h)
    if P is not None and P.tags.get("replay") and P.pid not in job.fam.dropped:
        try:
            if harness and PLAYBACK_BUDGET[0] > 0:
                PLAYBACK_BUDGET[0] -= 1
                vals = playback(job, harness)
                rec["kani_harness"] = harness
                rec["kani_counterexample_bytes"] = vals
                if vals is not None:
                    _native(job, P, ["bytes"] + [str(v) for v in vals], rec, r, "kani concrete playback")
            if not r.get("replayed") and (SEARCH_BUDGET[0] > 0 or force_search):
                SEARCH_BUDGET[0] -= 1
                _native(job, P, ["search", "40000", str(job.seed)], rec, r, "native search guided by the failed obligation")
            elif not r.get("replayed"):
                rec["replay_skipped"] = "replay budget for this run exhausted (first failures carry replays)"
        except Exception as ex:
            rec["replay_error"] = repr(ex)
    rec["replayed_against_real_code"] = bool(r.get("replayed"))
    json.dump(rec, open(path, "w"), indent=1)
    return path


def _native(job, P, args, rec, r, source):
    binp = os.path.join(job.fam.dir, "target", "debug", "replay")
    if not getattr(job, "_replay_built", False):
        rc, out, err, dt = famlib.sh(["cargo", "build", "--offline", "-q", "--bin", "replay"], job.fam.dir, timeout=900)
        job._replay_built = True
        if rc != 0:
            rec["replay_error"] = "replay binary did not build: " + err[-800:]
            return
    rc, out, err, dt = famlib.sh([binp, P.pid] + args, job.fam.dir, timeout=600)
    lines = out.strip().splitlines()
    if args[0] == "search":
        m = re.search(r"FOUND bytes: ([0-9 ]*)", out)
        if not m:
            rec["native_search"] = lines[-1:] if lines else []
            return
        args = ["bytes"] + m.group(1).split()
    mism = [l for l in lines if _mismatch(l)]
    if mism:
        rec["input_source"] = source
        rec["input_bytes"] = [int(x) for x in args[1:]]
        rec["native_cmd"] = "cd %s && cargo run --offline -q --bin replay -- %s %s" % (job.fam.dir, P.pid, " ".join(args))
        rec["native_output"] = [l for l in lines if "observed" in l]
        rec["native_mismatch"] = mism
        r["replayed"] = True
    else:
        rec.setdefault("non_reproducing", []).append({"source": source, "args": args[:40], "output": lines[:6]})


def _mismatch(line):
    m = re.search(r"observed (.*) expected (.*)$", line)
    return bool(m) and m.group(1).strip() != m.group(2).strip()


def playback(job, harness):
    cmd = ["cargo", "kani", "-Z", "function-contracts", "-Z", "stubbing", "-Z", "concrete-playback", "--concrete-playback=print",
           "--harness", harness, "--exact", "--default-unwind", "34"] + job.extra_kani_flags
    rc, out, err, dt = famlib.sh(cmd, job.fam.dir, timeout=1200)
    best = None
    for blk in out.split("Concrete playback unit test")[1:]:
        m = re.search(r"let concrete_vals: Vec<Vec<u8>> = vec!\[(.*?)\n\s*\];", blk, re.S)
        if not m:
            continue
        kind = re.search(r"Check for `(\w+)`", blk)
        vals = []
        for vm in re.finditer(r"vec!\[([0-9, ]*)\]", m.group(1)):
            vals += [int(x) for x in vm.group(1).split(",") if x.strip()]
        if kind and kind.group(1) == "cover":
            continue
        best = vals
        break
    return best


def do_replay(path):
    rec = json.load(open(path))
    print(json.dumps({k: rec.get(k) for k in ("property", "obligation", "engine", "program", "contract", "input_bytes")}, indent=1))
    print("verifier output:\n" + (rec.get("verifier_output") or ""))
    if rec.get("native_cmd"):
        print("$ " + rec["native_cmd"])
        p = subprocess.run(rec["native_cmd"], shell=True, stdout=subprocess.PIPE, stderr=subprocess.STDOUT, text=True)
        print(p.stdout)
        bad = [l for l in p.stdout.splitlines() if _mismatch(l)]
        return 1 if bad else 0
    print("no native input recorded (no-failing-input-found); re-run the check to reproduce the failed obligation")
    return 1


# ---------------------------------------------------------------------------------
def scan_assumptions(job):
    """mechanical scan of the generated Verus files and harness crate for unchecked assumptions"""
    found = {}
    pats = ["assume_specification", "external_body", "uninterp spec fn", "assume(", "admit(", "kani::stub", "kani::assume", "external_type_specification", "broadcast proof fn axiom", "#[verifier::external"]
    vdir = os.path.join(job.work, "verus")
    files = []
    if os.path.isdir(vdir):
        files += [os.path.join(vdir, f) for f in sorted(os.listdir(vdir)) if f.endswith(".rs")][:1]
    sdir = os.path.join(job.fam.dir, "src")
    if os.path.isdir(sdir):
        files += [os.path.join(sdir, f) for f in sorted(os.listdir(sdir))]
    for fp in files:
        try:
            txt = open(fp).read()
        except Exception:
            continue
        for p in pats:
            n = txt.count(p)
            if n:
                found[p] = found.get(p, 0) + n
    return found


def _dimension_counts(job):
    """how many members of the family each added dimension contributes (read off the members' notes)"""
    keys = [("uniform u8 twin", "uniform-u8 twins"), ("explicit bound twin", "explicit `bound` twins"), ("Adv-typed twin", "adversarial-type twins"),
            ("placement", "attribute placement"), ("spelling", "spelling"), ("exotic generics", "exotic generics"), ("ignore+method", "ignore+method"),
            ("wide", "wide shapes"), ("same-typed fields", "hostile same-typed names"), ("packed", "packed"), ("layout enum", "layout enums"),
            ("parameter order", "parameter order"), ("structured", "C15 structured"), ("Deref/DerefMut markers", "C15 Deref"), ("258-variant", "more than 256 variants")]
    out = {}
    base = 0
    for P in job.fam.programs.values():
        if P.canary_of is not None:
            continue
        hit = False
        for k, label in keys:
            if k in (P.note or ""):
                out[label] = out.get(label, 0) + 1
                hit = True
        if not hit:
            base += 1
    out["base grid"] = base
    return out


def write_evidence(job, spec, a, t0, violations=(), undecided=(), known_hit=(), n_canary_fail=0, base_note=None, fatal=None):
    os.makedirs(os.path.join(HERE, "evidence"), exist_ok=True)
    res = job.results
    proved = [n for n, r in res.items() if r["status"] == "proved"]
    bounded = {n: r["bounded"] for n, r in res.items() if r.get("bounded")}
    by_engine = {}
    for n, r in res.items():
        by_engine.setdefault(r["engine"], [0, 0])
        by_engine[r["engine"]][0] += 1
        by_engine[r["engine"]][1] += r["status"] == "proved"
    samples = []
    for n in sorted(res)[:: max(1, len(res) // 6)][:8]:
        r = res[n]
        P = job.fam.programs.get(r["pid"])
        samples.append({"obligation": n, "engine": r["engine"], "status": r["status"], "contract": r.get("contract"),
                        "program": P.typedef(True) if P else None,
                        "expansion_sha256_16": famlib.sha(job.fam.expansion.get(r["pid"], "")),
                        "extraction_edits": job.edits.get(r["pid"], [])})
    fns = sorted({"%s::%s" % (r["pid"], n.split("/")[2]) for n, r in res.items() if len(n.split("/")) > 2})
    scanned = scan_assumptions(job)
    cov = {
        "obligations": len(res),
        "discharged": len(proved),
        "discharged_unbounded": len(proved) - len([n for n in proved if n in bounded]),
        "bounded_stand_ins": bounded,
        "checker_cmd": "verus <work>/%s/verus/v*.rs --output-json --time --rlimit 60 ; cargo kani -Z function-contracts -Z stubbing -j N --default-unwind 34 (in <work>/%s/fam)" % (job.prop, job.prop),
        "trusted_base": spec.get("trusted", []) + props.TRUSTED_COMMON,
        "programs": len([p for p in job.fam.programs.values() if p.canary_of is None]),
        "programs_dropped_undecided": dict(job.fam.dropped, **{k: v for k, v in getattr(job, "verus_only_rejected", job.verus_rejected).items()}),
        "verus_front_end_rejected_but_decided_by_kani": {k: runlib._short(v, 200) for k, v in getattr(job, "verus_rejected_kani_ok", {}).items()},
        "exhaustive": False,
        "family": {"tier": job.tier, "seed": job.seed, "bounds": spec.get("bounds", {}).get(job.tier, ""),
                   "members_by_dimension": _dimension_counts(job)},
        "engines": {"verus": dict(job.stats["verus"], version=_ver("verus")), "kani": dict(job.stats["kani"], version=_ver("kani"))},
        "by_engine": {k: {"obligations": v[0], "discharged": v[1]} for k, v in by_engine.items()},
        "functions_under_contract": len(fns),
        "functions_sample": fns[:12],
        "canaries": {"groups_expected_to_fail": len({(r["pid"], r["engine"]) for r in job.canaries.values()}), "refuted": n_canary_fail},
        "undecided": [{"obligation": n, "why": runlib._short(r.get("detail", ""), 300)} for n, r in undecided][:50],
        "known_findings_hit": [n for n, _, _ in known_hit],
        "violations": [n for n, _ in violations],
        "assumption_scan": scanned,
        "baseline": base_note or "matches committed baseline",
        "aux_dropped": getattr(job, "aux_dropped", None),
        "samples": samples or [{"note": fatal or "no obligations"}],
        "explanation": spec.get("explanation", ""),
        "build_log": job.fam.log,
    }
    if fatal:
        cov["fatal"] = fatal
    ev = {"property_id": job.prop, "tier": job.tier, "seed": job.seed, "level": "proof", "coverage": cov,
          "assumptions": spec.get("assumptions", []) + props.ASSUMPTIONS_COMMON,
          "wall_s": round(time.time() - t0, 1), "violations": len(violations)}
    json.dump(ev, open(os.path.join(HERE, "evidence", "%s.json" % job.prop), "w"), indent=1)


_vers = {}


def _ver(tool):
    if tool not in _vers:
        try:
            if tool == "verus":
                _vers[tool] = subprocess.run(["verus", "--version"], stdout=subprocess.PIPE, stderr=subprocess.STDOUT, text=True).stdout.strip().splitlines()[1].strip()
            else:
                _vers[tool] = subprocess.run(["cargo", "kani", "--version"], stdout=subprocess.PIPE, stderr=subprocess.STDOUT, text=True).stdout.strip()
        except Exception:
            _vers[tool] = "?"
    return _vers[tool]


if __name__ == "__main__":
    sys.exit(main())
