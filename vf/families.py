"""Program families per property (the bounded dimension; bounds stated in DESIGN §4)."""
import itertools, random, copy, re
from .model import Field, Variant, Program, spell_param, ISIZE_MIN

KANI_TYS = ["u8", "f32", "crate::m::Adv", "bool", "i8", "u16"]
NAMES = ["a", "b", "c", "d", "e", "f"]
# hostile-but-legal identifiers that coincide with names the generated code uses
HOSTILE = ["other", "state", "f", "builder", "source", "_0", "v", "r#fn"]


# names that differ only by leading underscores / by the prefixes the generated bindings use
HOSTILE2 = ["x", "_x", "__x", "_s_x", "_o_x", "v_x"]


def vnames(k):
    """field names for a named variant: ordinary, or the colliding family, by rotation"""
    return HOSTILE2 if k % 3 == 1 else NAMES


class Counter:
    def __init__(self):
        self.n = 0

    def pid(self):
        self.n += 1
        return "p%04d" % self.n


def inst_for(generics, tys=KANI_TYS, rot=0):
    return {g: tys[(i + rot) % len(tys)] for i, g in enumerate(generics)}


# ---------------------------------------------------------------------------------
# attribute spelling for the ignore/method/rank style traits
def spell_field(carrier, sem, form):
    """sem: dict(ignore, method, rank) -> spelled meta or None"""
    ps = []
    if sem.get("ignore"):
        if form % 4 == 3 and not sem.get("method") and sem.get("rank") is None:
            return "%s = false" % carrier
        ps.append(spell_param("ignore", True, form))
    if sem.get("method"):
        ps.append(spell_param("method", sem["method"], form // 2))
    if sem.get("rank") is not None:
        r = sem["rank"]
        # `rank = -1`, `rank(-1)`, `rank = "-1"`... string form only for quick variety
        ps.append(spell_param("rank", str(r), form))
    if not ps:
        return None
    # parameter order decorrelated from the value spelling: every spelling occurs first and last in its list
    # (`rank = -3, method(..)` reaches the parser as a unary minus, `method(..), rank = -3` as a signed literal)
    if form % 8 in (1, 3, 4, 6):
        ps.reverse()
    return "%s(%s)" % (carrier, ", ".join(ps))


def mk_struct(pid, shape, fields, traits, focus, generics, note="", **kw):
    v = Variant(None, shape, fields)
    return Program(pid, "struct", "S", [v], traits, generics=generics, inst=inst_for(generics, rot=len(fields)),
                   focus=focus, note=note, **kw)


# ---------------------------------------------------------------------------------
# C02
EQ_METHODS = ["crate::m::eq_a", "crate::m::eq_b"]


def eq_fields(shape, assign, form, carrier, names=NAMES):
    """assign: tuple over {'n','i','m'} ; returns (fields, generics)"""
    fields, generics = [], []
    for i, a in enumerate(assign):
        sem = {"ignore": a in "ib", "method": EQ_METHODS[i % 2] if a in "mb" else None}
        if a in "mb":
            ty = "u8"
        else:
            ty = "T%d" % len(generics)
            generics.append(ty)
        sp = spell_field(carrier, sem, form + i)
        fields.append(Field(names[i] if shape == "named" else None, ty, attrs=[sp] if sp else [], eq=sem))
    return fields, generics


def c02(tier, seed):
    rnd = random.Random(seed)
    c = Counter()
    out = []
    maxn = 3 if tier == "quick" else 4
    form = 0
    for shape in ("named", "tuple"):
        for n in range(0, maxn + 1):
            for assign in itertools.product("nim", repeat=n):
                form += 1
                with_eq = form % 3 == 0
                carrier = "Eq" if (with_eq and form % 2 == 0) else "PartialEq"
                names = HOSTILE if form % 5 == 0 else NAMES
                fields, generics = eq_fields(shape, assign, form, carrier, names)
                traits = ["PartialEq"] + (["Eq"] if with_eq else [])
                if form % 7 == 0:
                    traits.reverse()
                out.append(mk_struct(c.pid(), shape if n else ("named" if shape == "named" else "tuple"), fields, traits,
                                     {"PartialEq"}, generics,
                                     note="struct %s eq=%s carrier=%s" % (shape, "".join(assign) or "-", carrier)))
    out.append(mk_struct(c.pid(), "unit", [], ["PartialEq"], {"PartialEq"}, [], note="unit struct"))
    # enums
    kinds = {"u": ("unit", 0), "t1": ("tuple", 1), "t2": ("tuple", 2), "n2": ("named", 2), "n3": ("named", 3), "t3": ("tuple", 3)}
    combos = [(a,) for a in ("u", "t1", "t2", "n2")] + list(itertools.product(("u", "t1", "t2", "n2"), repeat=2))
    combos += [("u", "t1", "n2"), ("t2", "t2", "u"), ("n2", "n2", "n2"), ("u", "u", "u"), ("t1", "t1", "t1"), ("n2", "u", "t2"),
               ("t1", "n2", "t2"), ("t2", "u", "n2"), ("n2", "t1", "u"), ("u", "t2", "t1"), ("t1", "u", "u"), ("n3", "t3", "u")]
    if tier != "quick":
        combos += [tuple(rnd.choice(list(kinds)) for _ in range(rnd.choice((3, 4, 5)))) for _ in range(300)]
    for ci, combo in enumerate(combos):
        form += 1
        with_eq = form % 3 == 0
        carrier = "Eq" if (with_eq and form % 2 == 0) else "PartialEq"
        generics = []
        variants = []
        pos = 0
        for vi, k in enumerate(combo):
            kind, m = kinds[k]
            fs = []
            for j in range(m):
                pos += 1
                # one non-trivial assignment per position, rotating
                a = "nim"[(pos + ci) % 3] if (pos + ci) % 2 == 0 else "n"
                if tier != "quick":
                    a = rnd.choice("nnim")
                sem = {"ignore": a == "i", "method": EQ_METHODS[pos % 2] if a == "m" else None}
                if a == "m":
                    ty = "u8"
                else:
                    ty = "T%d" % (len(generics) % 3)
                    if ty not in generics:
                        generics.append(ty)
                sp = spell_field(carrier, sem, form + pos)
                fs.append(Field(vnames(ci + vi)[j] if kind == "named" else None, ty, attrs=[sp] if sp else [], eq=sem))
            variants.append(Variant("V%d" % vi, kind, fs))
        traits = ["PartialEq"] + (["Eq"] if with_eq else [])
        P = Program(c.pid(), "enum", "E", variants, traits, generics=generics, inst=inst_for(generics, rot=ci),
                    focus={"PartialEq"}, note="enum %s carrier=%s" % ("/".join(combo), carrier))
        out.append(P)
    return out


def canaries_eq(programs):
    """must-fail twins: one compared field dropped from the oracle / an ignored field added"""
    out = []
    picks = [p for p in programs if any(not f.s("eq", "ignore") for v in p.variants for f in v.fields)]
    for P in picks[3:4] + picks[-2:-1]:
        Q = P.clone()
        Q.pid = P.pid + "_canary"
        Q.canary_of = P.pid
        for v in Q.variants:
            for f in v.fields:
                if not f.s("eq", "ignore"):
                    f.sem["eq"] = dict(f.sem.get("eq", {}), ignore=True)
                    break
            else:
                continue
            break
        Q.note = "CANARY (oracle drops a compared field) of " + P.pid
        out.append(Q)
    return out


# ---------------------------------------------------------------------------------
# C03 / C04
ORD_TYS = ["u8", "crate::m::Adv", "i8", "bool", "u16"]
PORD_TYS = ["crate::m::Inc", "u8", "crate::m::Adv", "i8", "u16"]


def ord_field(name, a, rank, md, carrier, form, generics, i):
    meths = ["crate::m::pcmp_a", "crate::m::pcmp_b"] if md == "po" else ["crate::m::cmp_a", "crate::m::cmp_b"]
    sem = {"ignore": a in "ib", "method": meths[i % 2] if a in "mb" else None, "rank": rank}
    if a in "mb":
        ty = "u8"
    else:
        ty = "T%d" % len(generics)
        generics.append(ty)
    sp = spell_field(carrier, sem, form)
    return Field(name, ty, attrs=[sp] if sp else [], ord=sem)


def ord_program(pid, kind, name, variants, md, generics, rot, note, prop=None, repr_=None, with_peq="educe"):
    if md == "both":
        traits = ["PartialEq", "Eq", "PartialOrd", "Ord"]
        focus = {"Ord", "PartialOrd"}
        tys = ORD_TYS
    else:
        traits = ["PartialEq", "PartialOrd"]
        focus = {"PartialOrd"}
        tys = PORD_TYS
    if rot % 4 == 1:
        traits = list(reversed(traits))
    P = Program(pid, kind, name, variants, traits, generics=generics, inst=inst_for(generics, tys, rot),
                focus=focus, note=note, repr_=repr_, ord={"mode": md})
    if md == "po" and generics and rot % 6 == 1:
        P.inst[generics[0]] = "f32"      # real NaN; costly in CBMC, so only every sixth program
    if prop:
        P.tags["prop"] = prop
    return P


def rank_schemes(n, perm, scheme):
    """ranks per field index so that the visiting order is perm (a tuple of field indexes)"""
    ranks = [None] * n
    if scheme == 0:
        vals = [-7, 0, 5, 300, 1000, 2000][:n]
        for k, fi in enumerate(perm):
            ranks[fi] = vals[k]
    elif scheme == 1:
        # unranked fields come first in declaration order; rank the rest after them
        unr = sorted(perm[:1])
        vals = [-1, 2, 1000, 5000, 6000][:n]
        for k, fi in enumerate(perm[1:]):
            ranks[fi] = vals[k]
    else:
        vals = [ISIZE_MIN, -3, 11, (1 << 63) - 1][:n]
        for k, fi in enumerate(perm):
            ranks[fi] = vals[k]
        # field 1 unranked would collide with isize::MIN + 1 only if explicitly given; fine
    return ranks


def c03(tier, seed):
    rnd = random.Random(seed)
    c = Counter()
    out = []
    form = 0
    maxn = 3 if tier == "quick" else 4
    for shape in ("named", "tuple"):
        for n in range(0, maxn + 1):
            for assign in itertools.product("nim", repeat=n):
                form += 1
                md = "both" if form % 2 == 0 else "po"
                carrier = "PartialOrd" if (md == "po" or form % 4 == 0) else "Ord"
                generics = []
                names = HOSTILE if form % 5 == 0 else NAMES
                fields = [ord_field(names[i] if shape == "named" else None, a, None, md, carrier, form + i, generics, i)
                          for i, a in enumerate(assign)]
                out.append(ord_program(c.pid(), "struct", "S", [Variant(None, shape, fields)], md, generics, form,
                                       "struct %s ord=%s mode=%s carrier=%s" % (shape, "".join(assign) or "-", md, carrier)))
    # ranks
    for n in (2, 3) + ((4,) if tier != "quick" else ()):
        perms = list(itertools.permutations(range(n)))
        if n == 4:
            perms = rnd.sample(perms, 10)
        for perm in perms:
            for scheme in (0, 1, 2):
                form += 1
                md = "both" if form % 2 == 0 else "po"
                carrier = "PartialOrd" if (md == "po" or form % 4 == 0) else "Ord"
                ranks = rank_schemes(n, perm, scheme)
                assign = ["n"] * n
                if form % 3 == 0:
                    assign[form % n] = "m"
                if form % 7 == 0:
                    assign[(form + 1) % n] = "i"
                shape = "named" if form % 2 else "tuple"
                generics = []
                fields = [ord_field(NAMES[i] if shape == "named" else None, a, ranks[i], md, carrier, form + i, generics, i)
                          for i, a in enumerate(assign)]
                out.append(ord_program(c.pid(), "struct", "S", [Variant(None, shape, fields)], md, generics, form,
                                       "struct %s ranks=%s ord=%s mode=%s carrier=%s" % (shape, ranks, "".join(assign), md, carrier)))
    out.append(ord_program(c.pid(), "struct", "S", [Variant(None, "unit", [])], "both", [], 0, "unit struct"))
    # enums (same-variant ordering; cross-variant with implicit discriminants)
    kinds = {"u": ("unit", 0), "t1": ("tuple", 1), "t2": ("tuple", 2), "n2": ("named", 2), "n3": ("named", 3), "t3": ("tuple", 3)}
    combos = [(a,) for a in ("u", "t1", "t2", "n2")] + list(itertools.product(("u", "t1", "t2", "n2"), repeat=2))
    combos += [("u", "t1", "n2"), ("t2", "t2", "u"), ("n2", "n2", "n2"), ("u", "u", "u"), ("t1", "t1", "t1"), ("n2", "u", "t2"),
               ("t1", "n2", "t2"), ("t2", "u", "n2"), ("n2", "t1", "u"), ("u", "t2", "t1"), ("t1", "u", "u"), ("n3", "t3", "u")]
    if tier != "quick":
        combos += [tuple(rnd.choice(list(kinds)) for _ in range(rnd.choice((3, 4, 5)))) for _ in range(250)]
    for ci, combo in enumerate(combos):
        form += 1
        md = "both" if form % 2 == 0 else "po"
        carrier = "PartialOrd" if (md == "po" or form % 4 == 0) else "Ord"
        generics, variants, pos = [], [], 0
        for vi, k in enumerate(combo):
            kind, m = kinds[k]
            fs = []
            # a rank permutation inside multi-field variants, rotating
            perm = list(range(m))
            if m >= 2 and (ci + vi) % 2 == 0:
                perm = perm[1:] + perm[:1]
            ranks = rank_schemes(m, tuple(perm), (ci + vi) % 2) if (m >= 2 and (ci + vi) % 3 != 1) else [None] * m
            for j in range(m):
                pos += 1
                a = "nim"[(pos + ci) % 3] if (pos + ci) % 2 == 0 else "n"
                if tier != "quick":
                    a = rnd.choice("nnim")
                g2 = []
                f = ord_field(vnames(ci + vi)[j] if kind == "named" else None, a, ranks[j], md, carrier, form + pos, g2, pos)
                if g2:
                    f.ty = "T%d" % (pos % 3)
                    if f.ty not in generics:
                        generics.append(f.ty)
                fs.append(f)
            variants.append(Variant("V%d" % vi, kind, fs))
        generics.sort()
        out.append(ord_program(c.pid(), "enum", "E", variants, md, generics, ci, "enum %s mode=%s carrier=%s" % ("/".join(combo), md, carrier)))
    return out


def canaries_ord(programs):
    out = []
    # (1) swap the visiting order of two fields in the oracle  (2) un-ignore
    picks = [p for p in programs if p.kind == "struct" and len([f for f in p.variants[0].fields if not f.s("ord", "ignore")]) >= 2]
    for P in [picks[2], picks[-1]] + [p for p in picks if p.s("ord", "mode") == "po"][:1]:
        Q = P.clone()
        Q.pid = P.pid + "_canary"
        Q.canary_of = P.pid
        fs = [f for f in Q.variants[0].fields if not f.s("ord", "ignore")]
        from .t_ord import visited
        vs = visited(Q.variants[0])
        a, b = vs[0], vs[1]
        ra = a.s("ord", "rank") if a.s("ord", "rank") is not None else ISIZE_MIN + a.idx
        rb = b.s("ord", "rank") if b.s("ord", "rank") is not None else ISIZE_MIN + b.idx
        a.sem["ord"] = dict(a.sem["ord"], rank=rb)
        b.sem["ord"] = dict(b.sem["ord"], rank=ra)
        Q.note = "CANARY (oracle swaps the first two visited fields) of " + P.pid
        out.append(Q)
    es = [p for p in programs if p.kind == "enum" and len(p.variants) >= 2]
    for P in es[3:4]:
        Q = P.clone()
        Q.pid = P.pid + "_canary"
        Q.canary_of = P.pid
        Q.variants[0].discr = 1000   # oracle believes the first variant sorts last
        Q.variants[1].discr = 0
        Q.tags["canary_keep_src"] = True
        Q.note = "CANARY (oracle uses a wrong discriminant) of " + P.pid
        out.append(Q)
    return out


# ---------------------------------------------------------------------------------
# C05
HASH_TYS = ["u8", "u16", "crate::m::Adv", "bool", "crate::m::K", "u32"]
HASH_METHODS = ["crate::m::hash_a", "crate::m::hash_b"]


def hash_field(name, a, form, i, rot):
    sem = {"ignore": a in "ib", "method": HASH_METHODS[i % 2] if a in "mb" else None}
    ty = "u8" if a in "mb" else HASH_TYS[(i + rot) % len(HASH_TYS)]
    sp = spell_field("Hash", sem, form)
    return Field(name, ty, attrs=[sp] if sp else [], hash=sem)


def c05(tier, seed):
    rnd = random.Random(seed)
    c = Counter()
    out = []
    form = 0
    maxn = 3 if tier == "quick" else 4
    for shape in ("named", "tuple"):
        for n in range(0, maxn + 1):
            for assign in itertools.product("nim", repeat=n):
                form += 1
                names = HOSTILE if form % 5 == 0 else NAMES
                fields = [hash_field(names[i] if shape == "named" else None, a, form + i, i, form) for i, a in enumerate(assign)]
                out.append(Program(c.pid(), "struct", "S", [Variant(None, shape, fields)], ["Hash"], focus={"Hash"},
                                   note="struct %s hash=%s" % (shape, "".join(assign) or "-")))
    out.append(Program(c.pid(), "struct", "S", [Variant(None, "unit", [])], ["Hash"], focus={"Hash"}, note="unit struct"))
    kinds = {"u": ("unit", 0), "t1": ("tuple", 1), "t2": ("tuple", 2), "n2": ("named", 2), "n3": ("named", 3), "t3": ("tuple", 3)}
    combos = [(a,) for a in ("u", "t1", "t2", "n2")] + list(itertools.product(("u", "t1", "t2", "n2"), repeat=2))
    combos += [("u", "t1", "n2"), ("t2", "t2", "u"), ("n2", "n2", "n2"), ("u", "u", "u"), ("t1", "t1", "t1"), ("n2", "u", "t2"),
               ("t1", "n2", "t2"), ("t2", "u", "n2"), ("n2", "t1", "u"), ("u", "t2", "t1"), ("t1", "u", "u"), ("n3", "t3", "u"),
               ("t1", "t1", "t1", "t1"), ("u", "u", "t1", "u", "n2")]
    if tier != "quick":
        combos += [tuple(rnd.choice(list(kinds)) for _ in range(rnd.choice((3, 4, 5, 6)))) for _ in range(250)]
    for ci, combo in enumerate(combos):
        form += 1
        variants, pos = [], 0
        for vi, k in enumerate(combo):
            kind, m = kinds[k]
            fs = []
            for j in range(m):
                pos += 1
                a = "nim"[(pos + ci) % 3] if (pos + ci) % 2 == 0 else "n"
                if tier != "quick":
                    a = rnd.choice("nnim")
                # same field type across variants at the same position: only the tag tells them apart
                fs.append(hash_field(vnames(ci + vi)[j] if kind == "named" else None, a, form + pos, j, ci))
            variants.append(Variant("V%d" % vi, kind, fs))
        out.append(Program(c.pid(), "enum", "E", variants, ["Hash"], focus={"Hash"}, note="enum %s" % "/".join(combo)))
    return out


def canaries_hash(programs):
    out = []
    picks = [p for p in programs if p.kind == "struct" and any(not f.s("hash", "ignore") for f in p.variants[0].fields)]
    for P in picks[4:5] + picks[-1:]:
        Q = P.clone(); Q.pid = P.pid + "_canary"; Q.canary_of = P.pid
        for f in Q.variants[0].fields:
            if not f.s("hash", "ignore"):
                f.sem["hash"] = dict(f.sem["hash"], ignore=True)
                break
        Q.note = "CANARY (oracle drops a hashed field) of " + P.pid
        out.append(Q)
    es = [p for p in programs if p.kind == "enum" and len(p.variants) >= 2 and all(len(v.fields) == len(p.variants[0].fields) for v in p.variants)]
    for P in es[1:2]:
        Q = P.clone(); Q.pid = P.pid + "_canary"; Q.canary_of = P.pid
        Q.variants[0], Q.variants[1] = Q.variants[1], Q.variants[0]
        Q.variants[0].idx, Q.variants[1].idx = 0, 1
        Q.tags["canary_engines"] = ["verus"]     # the Kani contract is tag-agnostic by design
        Q.note = "CANARY (oracle swaps the tags of two variants) of " + P.pid
        out.append(Q)
    return out


# ---------------------------------------------------------------------------------
# C07
CLONE_METHODS = ["crate::m::clone_a", "crate::m::clone_b"]


def clone_field(name, a, form, i, generics, slot):
    sem = {"method": CLONE_METHODS[i % 2] if a == "m" else None}
    if a == "m":
        ty = "u8"
    else:
        ty = "T%d" % slot
        if ty not in generics:
            generics.append(ty)
    sp = ("Clone(%s)" % spell_param("method", sem["method"], form)) if sem["method"] else None
    return Field(name, ty, attrs=[sp] if sp else [], clone=sem)


def clone_program(pid, kind, name, variants, generics, copy, note, form):
    traits = ["Clone", "Copy"] if copy else ["Clone"]
    if form % 3 == 0:
        traits.reverse()
    # other traits educed next to Clone must not change it (every fourth program; Debug runs before Clone)
    if (form // 2) % 3 == 1:
        traits = ["Debug"] + traits
        note += " +Debug"
    elif (form // 2) % 3 == 2 and form % 5 == 0:
        traits = traits + ["PartialEq"]
        note += " +PartialEq"
    P = Program(pid, kind, name, variants, traits, generics=sorted(generics),
                inst={g: ("crate::m::Adv" if (int(g[1:]) + form) % 3 == 2 else "crate::m::Ctr<%s>" % g[1:]) for g in generics}, focus={"Clone"}, note=note, clone={"copy": copy})
    if copy:
        P.tags["verus_also"] = ["Copy"]
    return P


def c07(tier, seed):
    rnd = random.Random(seed)
    c = Counter()
    out = []
    form = 0
    maxn = 3 if tier == "quick" else 5
    for shape in ("named", "tuple"):
        for n in range(0, maxn + 1):
            for assign in itertools.product("nm", repeat=n):
                for copy in (False, True):
                    if copy and "m" in assign:
                        continue
                    form += 1
                    generics = []
                    names = HOSTILE if form % 4 == 0 else NAMES
                    # two fields may share one type parameter: only position tells them apart
                    fields = [clone_field(names[i] if shape == "named" else None, a, form + i, i, generics, i if form % 3 else i // 2)
                              for i, a in enumerate(assign)]
                    out.append(clone_program(c.pid(), "struct", "S", [Variant(None, shape, fields)], generics, copy,
                                             "struct %s clone=%s copy=%s" % (shape, "".join(assign) or "-", copy), form))
    out.append(clone_program(c.pid(), "struct", "S", [Variant(None, "unit", [])], [], False, "unit struct", 1))
    out.append(clone_program(c.pid(), "struct", "S", [Variant(None, "unit", [])], [], True, "unit struct copy", 2))
    kinds = {"u": ("unit", 0), "t1": ("tuple", 1), "t2": ("tuple", 2), "n2": ("named", 2), "n3": ("named", 3), "t3": ("tuple", 3)}
    combos = [(a,) for a in ("u", "t1", "t2", "n2")] + list(itertools.product(("u", "t1", "t2", "n2"), repeat=2))
    combos += [("u", "t1", "n2"), ("t2", "t2", "u"), ("n2", "n2", "n2"), ("u", "u", "u"), ("t1", "t1", "t1"), ("n2", "u", "t2"),
               ("t1", "n2", "t2"), ("t2", "u", "n2"), ("n2", "t1", "u"), ("u", "t2", "t1"), ("n3", "t3", "u"), ("t1", "t1", "t1", "t1")]
    if tier != "quick":
        combos += [tuple(rnd.choice(list(kinds)) for _ in range(rnd.choice((3, 4, 5)))) for _ in range(200)]
    for ci, combo in enumerate(combos):
        for copy in (False, True):
            form += 1
            generics, variants, pos = [], [], 0
            for vi, k in enumerate(combo):
                kind, m = kinds[k]
                fs = []
                for j in range(m):
                    pos += 1
                    # enums accept a custom method together with Copy (clone is then field-wise)
                    a = "m" if ((pos + ci) % 3 == 0 and (not copy or ci % 2 == 0)) else "n"
                    f = clone_field(vnames(ci + vi)[j] if kind == "named" else None, a, form + pos, pos, generics, (j + vi) % 3)
                    fs.append(f)
                variants.append(Variant("V%d" % vi, kind, fs))
            if copy and any(f.s("clone", "method") for v in variants for f in v.fields):
                # Copy + method: educe bounds type parameters by Clone only, so `impl Copy` needs concrete Copy field types
                for v in variants:
                    for f in v.fields:
                        if f.ty.startswith("T"):
                            f.ty = ["u16", "bool", "u32"][f.idx % 3]
                generics = []
            out.append(clone_program(c.pid(), "enum", "E", variants, generics, copy, "enum %s copy=%s" % ("/".join(combo), copy), form))
    return out


def canaries_clone(programs):
    out = []
    picks = [p for p in programs if p.kind == "struct" and len(p.variants[0].fields) >= 2 and not p.s("clone", "copy")
             and any(f.s("clone", "method") for f in p.variants[0].fields)]
    for P in picks[:1] + picks[-1:]:
        Q = P.clone(); Q.pid = P.pid + "_canary"; Q.canary_of = P.pid
        for f in Q.variants[0].fields:
            if f.s("clone", "method"):
                f.sem["clone"] = {"method": "crate::m::clone_b" if f.s("clone", "method").endswith("_a") else "crate::m::clone_a"}
                break
        Q.note = "CANARY (oracle expects the other clone method) of " + P.pid
        out.append(Q)
    return out


# ---------------------------------------------------------------------------------
# C08
#            field type        source expr    expected typed value          verus?
DEF_LITS = [("u8",            "7",           "7u8",                         True),
            ("u32",           "70000",       "70000u32",                    True),
            ("i32",           "-3",          "-3i32",                       True),
            ("u16",           "9u16",        "9u16",                        True),
            ("u8",            "b'x'",        "120u8",                       True),
            ("bool",          "true",        "true",                        True),
            ("char",          "'z'",         "'z'",                         True),
            ("u32",           "1 + 2",       "3u32",                        True),
            ("u8",            "u8::MAX",     "255u8",                       True),
            ("u64",           "7u8",         None,                          False),   # placeholder, filtered (ill-typed on the pinned tree: C01)
            ("f32",           "1.5",         "1.5f32",                      False),
            ("f64",           "2",           "2.0f64",                      False),   # int literal, non-int field: Into
            ("f64",           "2.5f32",      "2.5f64",                      False),   # suffixed float, other float type: no Into on pinned tree -> filtered
            ("crate::m::W",   "5",           "crate::m::W(10)",             False),   # Into through a user From
            ("&'static str",  '"hi"',        '"hi"',                        False),
            ("String",        '"hi"',        'String::from("hi")',          False),
            ("u16",           "0x1F",        "31u16",                       True),
            ("&'static [u8; 2]", 'b"ab"',    'b"ab"',                       False),   # byte string into a byte-array reference: no Into
            ("u32",           "1_000",       "1000u32",                     True),
            ("Option<bool>",  "false",       "Some(false)",                 False),   # From<bool> for Option<bool>: not the type's default
            ("Option<bool>",  "true",        "Some(true)",                  False),
            ("Option<u8>",    "0",           "Some(0u8)",                   False),
            ("crate::m::Off", "-9",          "-9i64",                       True),    # type alias: not spelled as a primitive -> Into, sign must survive
            ("crate::m::Num", "7u8",         "crate::m::Num::U8(7)",        False),   # several From<integer> impls: the literal's suffix selects one
            ("crate::m::Num", "300u16",      "crate::m::Num::U16(300)",     False),
            ("crate::m::Num", "5",           "crate::m::Num::I32(5)",       False),
            ("crate::m::Num", "-6i32",       "crate::m::Num::I32(-6)",      False),
            ("u8",            "crate::m::next_id()", "0u8",                 False),   # impure expression: evaluated exactly once
            ("crate::m::Off", "9",           "9i64",                        True),
            ("crate::m::Flt", "-2.5",        "-2.5f64",                     False),
            ("crate::m::Flt", "3",           "3.0f64",                      False),
            ("i8",            "-128",        "-128i8",                      True),
            ]
DEF_LITS = [l for l in DEF_LITS if l[2] is not None and not (l[0] == "f64" and l[1] == "2.5f32")]
DEF_NONE = [("u8", "0u8", True), ("bool", "false", True), ("u32", "0u32", True), ("char", "'\\0'", True), ("i32", "0i32", True),
            ("Option<u8>", "None", False), ("f32", "0.0f32", False), ("u16", "0u16", True), ("String", "String::new()", False),
            ("crate::m::Adv", "crate::m::Adv(1)", False), ("crate::m::Adv", "crate::m::Adv(1)", False)]


def def_field(name, k, form, idx):
    """k >= 0: literal DEF_LITS[k]; k < 0: no attribute, type DEF_NONE[-k-1]"""
    if k >= 0:
        ty, src, exp, vok = DEF_LITS[k % len(DEF_LITS)]
        if src.startswith("-") and ty == "crate::m::Num":
            # `p(-6i32)` reaches the macro as a unary expression and gets no Into: refused by rustc on the pinned tree
            # (a compile-time refusal, C01; the `p = -6i32` forms arrive as a signed literal and convert)
            form = [0, 1, 2, 1, 2][form % 5]
        sp = ["Default = %s" % src, "Default(expression = %s)" % src, "Default(expr = %s)" % src,
              "Default(expression(%s))" % src, "Default(expr(%s))" % src][form % 5]
        return Field(name, ty, attrs=[sp], default={"src": src, "expected": exp, "verus": vok})
    ty, exp, vok = DEF_NONE[(-k - 1) % len(DEF_NONE)]
    return Field(name, ty, default={"src": None, "expected": exp, "verus": vok})


def def_traits(new, form):
    t = "Default(new)" if new and form % 2 == 0 else ("Default(new = true)" if new else "Default")
    return [t]


def c08(tier, seed):
    ps = _c08(tier, seed)
    for P in ps:
        P.tags.setdefault("mk", "// Default takes no inputs")
    return ps


def _c08(tier, seed):
    rnd = random.Random(seed)
    c = Counter()
    out = []
    form = 0
    nl = len(DEF_LITS)
    # structs: every literal kind in every spelling, at each position among defaulted neighbours
    for k in range(nl):
        # quick: the plain `Default = lit` spelling always, plus two rotating ones; thorough: all five
        for sp in (range(5) if tier != "quick" else sorted({0, 1 + k % 4, 1 + (k + 2) % 4})):
            form += 1
            shape = "named" if form % 2 else "tuple"
            n = 1 + form % 3
            at = form % n
            fields = [def_field(NAMES[i] if shape == "named" else None, k if i == at else -(1 + (form + i)), sp if i == at else 0, i)
                      for i in range(n)]
            new = form % 3 == 0
            out.append(Program(c.pid(), "struct", "S", [Variant(None, shape, fields)], def_traits(new, form), focus={"Default"},
                               note="struct %s lit=%s spelling=%d at=%d/%d new=%s" % (shape, DEF_LITS[k][1], sp, at, n, new), default={"new": new}))
    # same-typed fields, some with an expression and some defaulted, in every order (tuple positions must be kept)
    for shape in ("tuple", "named"):
        for pattern in ("de", "ed", "dde", "ded", "edd", "dee", "eded"):
            form += 1
            fs = []
            for i, ch in enumerate(pattern):
                if ch == "e":
                    v = 7 + i
                    sp = ["Default = %d", "Default(expression = %d)", "Default(expr(%d))"][(form + i) % 3] % v
                    fs.append(Field(NAMES[i] if shape == "named" else None, "u32", attrs=[sp], default={"src": str(v), "expected": "%du32" % v, "verus": True}))
                else:
                    fs.append(Field(NAMES[i] if shape == "named" else None, "u32", default={"src": None, "expected": "0u32", "verus": True}))
            out.append(Program(c.pid(), "struct", "S", [Variant(None, shape, fs)], def_traits(form % 2 == 0, form), focus={"Default"},
                               note="struct %s same-typed fields expression/default pattern %s" % (shape, pattern), default={"new": form % 2 == 0}))
    # two/three literal fields next to each other (neighbour's expression must not leak)
    for k in range(0, nl, 2):
        form += 1
        shape = "named" if form % 2 else "tuple"
        fields = [def_field(NAMES[i] if shape == "named" else None, (k + 3 * i) % nl, form + i, i) for i in range(3)]
        out.append(Program(c.pid(), "struct", "S", [Variant(None, shape, fields)], def_traits(False, form), focus={"Default"},
                           note="struct %s three literal fields from %d" % (shape, k), default={"new": False}))
    out.append(Program(c.pid(), "struct", "S", [Variant(None, "unit", [])], ["Default(new)"], focus={"Default"}, note="unit struct new", default={"new": True}))
    # type-level expression
    for form2, (src, exp, shape, tys) in enumerate([
            ("S { a: 1, b: true }", "S { a: 1u8, b: true }", "named", ["u8", "bool"]),
            ("S(9, 'q')", "S(9u32, 'q')", "tuple", ["u32", "char"]),
            ("S { a: 2 + 3, b: false }", "S { a: 5u8, b: false }", "named", ["u8", "bool"])]):
        for sp in range(3):
            fields = [Field(NAMES[i] if shape == "named" else None, t, default={"expected": "unused", "verus": True}) for i, t in enumerate(tys)]
            tl = ["Default(expression = %s)" % src, "Default(expr = %s)" % src, "Default(new, expression(%s))" % src][sp]
            out.append(Program(c.pid(), "struct", "S", [Variant(None, shape, fields)], [tl], focus={"Default"},
                               note="struct type-level expression spelling %d" % sp, default={"new": sp == 2, "type_expected": exp}))
    # enums: marker position x variant kinds
    kinds = [("unit", 0), ("tuple", 1), ("named", 2), ("tuple", 2), ("named", 1)]
    nv_list = (1, 2, 3, 4) if tier == "quick" else (1, 2, 3, 4, 5)
    for nv in nv_list:
        for mark in range(nv):
            for rot in range(len(kinds) if tier != "quick" else 2):
                form += 1
                variants = []
                for vi in range(nv):
                    kind, m = kinds[(vi + rot + mark) % len(kinds)]
                    marked = vi == mark
                    # only the designated variant's fields may carry expressions (others are rejected by educe)
                    fs = [def_field(vnames(form + vi)[j] if kind == "named" else None,
                                    ((form + vi + j) % nl) if (marked and (form + vi + j) % 2 == 0) else -(1 + form + j), form + j, j)
                          for j in range(m)]
                    variants.append(Variant("V%d" % vi, kind, fs, attrs=["Default"] if (marked and (nv > 1 or form % 2)) else [],
                                            default={"marked": marked}))
                new = form % 3 == 0
                out.append(Program(c.pid(), "enum", "E", variants, def_traits(new, form), focus={"Default"},
                                   note="enum %d variants default=V%d new=%s" % (nv, mark, new), default={"new": new}))
    # enum with type-level expression (no marker)
    vs = [Variant("V0", "unit", []), Variant("V1", "tuple", [Field(None, "u8", default={"expected": "unused"})]),
          Variant("V2", "named", [Field("a", "bool", default={"expected": "unused"})])]
    out.append(Program(c.pid(), "enum", "E", vs, ["Default(expression = E::V1(4))"], focus={"Default"},
                       note="enum type-level expression", default={"new": False, "type_expected": "E::V1(4u8)"}))
    # single-variant enums with a type-level expression (the expression wins over "the only variant")
    for sp, (vkind, fields, src, exp) in enumerate([
            ("tuple", [("u8", None)], "E::V0(42)", "E::V0(42u8)"),
            ("named", [("u8", "a"), ("bool", "b")], "E::V0 { a: 3, b: true }", "E::V0 { a: 3u8, b: true }"),
            ("tuple", [("u32", None), ("char", None)], "E::V0(7, 'q')", "E::V0(7u32, 'q')")]):
        for tl in ("Default(expression = %s)", "Default(new, expr = %s)"):
            vs = [Variant("V0", vkind, [Field(n, t, default={"expected": "unused"}) for t, n in fields])]
            out.append(Program(c.pid(), "enum", "E", vs, [tl % src], focus={"Default"}, note="single-variant enum with type-level expression `%s`" % (tl % src),
                               default={"new": "new" in tl, "type_expected": exp}))
    # unions whose designated field type has a non-zero Default and wrong inherent methods
    for nf in (1, 2):
        for mark in range(nf):
            form += 1
            fs = [Field(NAMES[i], "crate::m::Adv" if i == mark else "u8", attrs=(["Default"] if (i == mark and nf > 1) else []),
                        default={"marked": i == mark, "expected": "crate::m::Adv(1)" if i == mark else "0u8"}) for i in range(nf)]
            P = Program(c.pid(), "union", "U", [Variant(None, "named", fs)], def_traits(False, form), focus={"Default"},
                        note="union %d fields default=%s of type Adv (Default is not all-zero)" % (nf, NAMES[mark]), default={"new": False})
            P.tags["mk"] = "// Default takes no inputs"
            out.append(P)
    # unions: marked or only field
    for nf in (1, 2, 3):
        for mark in range(nf):
            for withexpr in (False, True):
                form += 1
                tys = ["u32", "[u8; 4]", "i32"]
                fs = []
                for i in range(nf):
                    marked = i == mark
                    attrs = []
                    exp = {"u32": "0u32", "[u8; 4]": "[0u8; 4]", "i32": "0i32"}[tys[i]]
                    if marked and withexpr:
                        lit = {"u32": ("77", "77u32"), "[u8; 4]": ("[1, 2, 3, 4]", "[1u8, 2, 3, 4]"), "i32": ("-5", "-5i32")}[tys[i]]
                        attrs = ["Default = %s" % lit[0]] if form % 2 else ["Default(expression = %s)" % lit[0]]
                        exp = lit[1]
                    elif marked and nf > 1:
                        attrs = ["Default"]
                    fs.append(Field(NAMES[i], tys[i], attrs=attrs, default={"marked": marked, "expected": exp}))
                P = Program(c.pid(), "union", "U", [Variant(None, "named", fs)], def_traits(form % 2 == 0, form), focus={"Default"},
                            note="union %d fields default=%s expr=%s" % (nf, NAMES[mark], withexpr), default={"new": form % 2 == 0})
                P.tags["mk"] = "pub fn mk<Z9: Src>(s: &mut Z9) -> TI { U { %s: <%s as Default>::default() } }" % (NAMES[0], tys[0])
                out.append(P)
    # a field whose NAME is also the name of a free function that a later field's expression calls: the call means the function
    for sp in ("Default(expression = handler())", "Default = handler()"):
        form += 1
        fs = [Field("handler", "fn() -> u8", attrs=["Default(expression = crate::m::quiet)"], default={"src": "crate::m::quiet", "expected": "(crate::m::quiet as fn() -> u8)", "verus": False}),
              Field("banner", "u8", attrs=[sp], default={"src": "handler()", "expected": "7u8", "verus": False}),
              Field("quiet", "u8", default={"src": None, "expected": "0u8", "verus": False})]
        P = Program(c.pid(), "struct", "S", [Variant(None, "named", fs)], def_traits(form % 2 == 0, form), focus={"Default"},
                    note="struct whose field `handler` is named like the free function a later expression calls (%s)" % sp, default={"new": form % 2 == 0})
        P.tags["pre_items"] = "use crate::m::handler;\n"
        out.append(P)

    return out


def canaries_default(programs):
    out = []
    picks = [p for p in programs if p.kind == "struct" and not p.s("default", "type_expected")
             and any(f.s("default", "src") and f.ty == "u8" for f in p.variants[0].fields)]
    for P in picks[:1]:
        Q = P.clone(); Q.pid = P.pid + "_canary"; Q.canary_of = P.pid
        for f in Q.variants[0].fields:
            if f.s("default", "src") and f.ty == "u8":
                f.sem["default"] = dict(f.sem["default"], expected="99u8")
        Q.note = "CANARY (oracle expects another literal) of " + P.pid
        out.append(Q)
    es = [p for p in programs if p.kind == "enum" and len(p.variants) >= 2 and not p.s("default", "type_expected")]
    for P in es[:1]:
        Q = P.clone(); Q.pid = P.pid + "_canary"; Q.canary_of = P.pid
        m = [v for v in Q.variants if v.s("default", "marked")][0]
        other = [v for v in Q.variants if v is not m][0]
        m.sem["default"] = {"marked": False}; other.sem["default"] = {"marked": True}
        Q.note = "CANARY (oracle designates another variant) of " + P.pid
        out.append(Q)
    return out


# ---------------------------------------------------------------------------------
# C09
def deref_fields(kind, n, dm, dmm, with_mut, ty, form, names=NAMES):
    fs = []
    for i in range(n):
        attrs = []
        both = (i == dm and i == dmm and with_mut and n > 1)
        if n > 1 and i == dm:
            attrs.append("Deref")
        if n > 1 and with_mut and i == dmm:
            attrs.append("DerefMut")
        f = Field(names[i] if kind == "named" else None, ty, attrs=attrs,
                  deref={"mark": i == dm}, deref_mut={"mark": i == dmm})
        if both and form % 2:
            f.sem["_split_attrs"] = True
        fs.append(f)
    return fs


def c09(tier, seed):
    rnd = random.Random(seed)
    c = Counter()
    out = []
    form = 0
    maxn = 3 if tier == "quick" else 4
    for shape in ("named", "tuple"):
        for n in range(1, maxn + 1):
            for dm in range(n):
                for dmm in list(range(n)) + [None]:
                    form += 1
                    with_mut = dmm is not None
                    names = HOSTILE if form % 4 == 0 else NAMES
                    fs = deref_fields(shape, n, dm, dmm if with_mut else -1, with_mut, "T0", form, names)
                    traits = ["Deref"] + (["DerefMut"] if with_mut else [])
                    if form % 3 == 0:
                        traits.reverse()
                    out.append(Program(c.pid(), "struct", "S", [Variant(None, shape, fs)], traits, generics=["T0"], inst={"T0": "u8"},
                                       focus=set(traits), note="struct %s n=%d deref@%d deref_mut@%s" % (shape, n, dm, dmm)))
    # reference-typed designated field: Target is the referent
    for n in (1, 2, 3):
        for dm in range(n):
            form += 1
            shape = "named" if form % 2 else "tuple"
            fs = []
            for i in range(n):
                ty = "&'static u8" if i == dm else ("u8" if i % 2 else "&'static u8")
                fs.append(Field(NAMES[i] if shape == "named" else None, ty, attrs=["Deref"] if (n > 1 and i == dm) else [], deref={"mark": i == dm}))
            out.append(Program(c.pid(), "struct", "S", [Variant(None, shape, fs)], ["Deref"], focus={"Deref"},
                               note="struct %s n=%d reference field deref@%d" % (shape, n, dm)))
    # enums
    shapes = [("tuple", 1), ("named", 1), ("tuple", 2), ("named", 2), ("tuple", 3), ("named", 3)]
    combos = [(a,) for a in range(6)] + [(a, b) for a in range(6) for b in range(6) if (a + b) % 2 == 1][:12] + [(0, 3, 4), (2, 2, 2), (5, 1, 2), (3, 0, 5)]
    if tier != "quick":
        combos += [tuple(rnd.randrange(6) for _ in range(rnd.choice((2, 3, 4)))) for _ in range(180)]
    for ci, combo in enumerate(combos):
        for with_mut in (False, True):
            form += 1
            variants = []
            for vi, si in enumerate(combo):
                kind, n = shapes[si]
                dm = (ci + vi) % n
                dmm = (ci + vi + 1 + form) % n
                variants.append(Variant("V%d" % vi, kind, deref_fields(kind, n, dm, dmm if with_mut else -1, with_mut, "T0", form + vi)))
            traits = ["Deref"] + (["DerefMut"] if with_mut else [])
            out.append(Program(c.pid(), "enum", "E", variants, traits, generics=["T0"], inst={"T0": "u8"}, focus=set(traits),
                               note="enum %s mut=%s" % ("/".join("%s%d" % shapes[s] for s in combo), with_mut)))
    return out


def canaries_deref(programs):
    out = []
    picks = [p for p in programs if p.kind == "struct" and len(p.variants[0].fields) >= 2 and "DerefMut" in p.focus]
    for P in picks[:1] + picks[-1:]:
        Q = P.clone(); Q.pid = P.pid + "_canary"; Q.canary_of = P.pid
        fs = Q.variants[0].fields
        cur = [f for f in fs if f.s("deref", "mark")][0]
        oth = [f for f in fs if f is not cur][0]
        cur.sem["deref"] = {"mark": False}; oth.sem["deref"] = {"mark": True}
        Q.note = "CANARY (oracle designates another Deref field) of " + P.pid
        out.append(Q)
    return out


# ---------------------------------------------------------------------------------
# C10
INTO_M = {("u8", "u16"): "crate::m::into_a", ("u8", "u32"): "crate::m::into_b", ("u16", "u16"): "crate::m::into_c"}


def into_mark(T, fty, use_method, form):
    m = INTO_M.get((fty, T)) if use_method else None
    if m:
        sp = "Into(%s, %s)" % (T, spell_param("method", m, form))
    else:
        sp = "Into(%s)" % T
    return sp, m


def into_program(pid, kind, variants, tgts, note, form):
    traits = ["Into(%s)" % t for t in tgts]
    type_attrs = None
    if form % 3 == 1 and len(tgts) > 1:
        type_attrs = [[t] for t in traits]          # several #[educe(..)] attributes
    P = Program(pid, kind, "S" if kind == "struct" else "E", variants, traits, focus={"Into"}, note=note,
                type_attrs=type_attrs, into={"targets": list(tgts)})
    return P


def c10(tier, seed):
    rnd = random.Random(seed)
    c = Counter()
    out = []
    form = 0
    # sole field: same type / conversion / method, 1-3 targets
    for fty, tgts in [("u16", ["u16"]), ("u8", ["u16"]), ("u8", ["u16", "u32"]), ("u8", ["u8", "u16", "u32"]), ("bool", ["u8"]),
                      ("u16", ["u32", "u16"]), ("u32", ["u32"]), ("u8", ["u32"]), ("u16", ["u64", "u32"])]:
        for use_m in (False, True):
            for shape in ("named", "tuple"):
                form += 1
                marks, attrs = {}, []
                for T in tgts:
                    if use_m and (fty, T) in INTO_M:
                        sp, m = into_mark(T, fty, True, form)
                        attrs.append(sp); marks[T] = m
                    elif form % 2 == 0 and not use_m:
                        attrs.append("Into(%s)" % T); marks[T] = None      # redundant marker on the sole field
                if use_m and not marks:
                    continue
                f = Field("a" if shape == "named" else None, fty, attrs=attrs, into={"marks": marks})
                if len(attrs) > 1 and form % 2:
                    f.sem["_split_attrs"] = True
                out.append(into_program(c.pid(), "struct", [Variant(None, shape, [f])], tgts,
                                        "struct sole %s -> %s method=%s" % (fty, tgts, use_m), form))
    # several fields: marker positions, unique-type selection, same-typed candidates
    layouts = [(["u8", "u8"], ["u16"]), (["u8", "u8", "u8"], ["u16"]), (["u8", "u16"], ["u16"]), (["u16", "u8", "u32"], ["u32", "u16"]),
               (["u8", "u8", "u16"], ["u16", "u32"]), (["u16", "u16"], ["u16"]), (["u8", "bool", "u8"], ["u8", "u32"]),
               (["u32", "u8", "u16"], ["u8", "u16", "u32"])]
    for tys, tgts in layouts:
        n = len(tys)
        # every assignment target -> designated position that is expressible
        choices = []
        for T in tgts:
            ch = []
            for i in range(n):
                if tys[i] == T or (tys[i], T) in WIDEN_T:
                    ch.append((i, "mark"))
            same = [i for i in range(n) if tys[i] == T]
            if len(same) == 1:
                ch.append((same[0], "type"))
            choices.append(ch)
        combos = list(itertools.product(*choices))
        if tier == "quick" and len(combos) > 8:
            combos = combos[::max(1, len(combos) // 8)][:8]
        for combo in combos:
            for use_m in (False, True):
                form += 1
                shape = "named" if form % 2 else "tuple"
                marks = [dict() for _ in range(n)]
                attrs = [[] for _ in range(n)]
                any_m = False
                for T, (i, how) in zip(tgts, combo):
                    if how == "mark":
                        sp, m = into_mark(T, tys[i], use_m, form)
                        any_m |= bool(m)
                        attrs[i].append(sp); marks[i][T] = m
                if use_m and not any_m:
                    continue
                fs = [Field(NAMES[i] if shape == "named" else None, tys[i], attrs=attrs[i], into={"marks": marks[i]}) for i in range(n)]
                for f in fs:
                    if len(f.attrs) > 1 and form % 2:
                        f.sem["_split_attrs"] = True
                out.append(into_program(c.pid(), "struct", [Variant(None, shape, fs)], tgts,
                                        "struct %s targets=%s designation=%s method=%s" % (tys, tgts, combo, use_m), form))
    # enums: per-variant designation
    vshapes = [("tuple", ["u8"]), ("named", ["u8"]), ("tuple", ["u8", "u8"]), ("named", ["u16", "u8"]), ("tuple", ["u8", "u16", "u8"]), ("named", ["u8", "u8", "u8"])]
    combos = [(a,) for a in range(6)] + [(a, b) for a in range(6) for b in range(6) if (a * 7 + b) % 3 == 0] + [(0, 3, 4), (2, 2, 2), (5, 1, 2), (3, 0, 5), (4, 4, 1, 0)]
    if tier != "quick":
        combos += [tuple(rnd.randrange(6) for _ in range(rnd.choice((2, 3, 4)))) for _ in range(180)]
    for ci, combo in enumerate(combos):
        for tgts in (["u16"], ["u16", "u32"]):
            form += 1
            variants = []
            for vi, si in enumerate(combo):
                kind, tys = vshapes[si]
                n = len(tys)
                marks = [dict() for _ in range(n)]
                attrs = [[] for _ in range(n)]
                for ti, T in enumerate(tgts):
                    cands = [i for i in range(n) if tys[i] == T or (tys[i], T) in WIDEN_T]
                    i = cands[(ci + vi + ti) % len(cands)]
                    same = [j for j in range(n) if tys[j] == T]
                    if n > 1 and not (same == [i] and (ci + vi) % 2 == 0):
                        sp, m = into_mark(T, tys[i], (form + vi) % 3 == 0, form)
                        attrs[i].append(sp); marks[i][T] = m
                    elif n > 1:
                        pass     # selected through its unique type
                    elif (form + vi) % 3 == 0 and (tys[i], T) in INTO_M:
                        sp, m = into_mark(T, tys[i], True, form)
                        attrs[i].append(sp); marks[i][T] = m
                variants.append(Variant("V%d" % vi, kind, [Field(NAMES[i] if kind == "named" else None, tys[i], attrs=attrs[i], into={"marks": marks[i]}) for i in range(n)]))
            out.append(into_program(c.pid(), "enum", variants, tgts, "enum %s targets=%s" % (combo, tgts), form))
    # a custom method on a field whose type already is the target (the method must still run), enums and structs
    for kindp in ("enum", "struct"):
        for vi_shapes in ([("tuple", ["u16"])], [("named", ["u16", "u8"]), ("tuple", ["u8", "u16"])], [("tuple", ["u16", "u16"]), ("named", ["u16"]), ("tuple", ["u8", "u16", "u8"])]):
            if kindp == "struct" and len(vi_shapes) > 1:
                continue
            for sp in range(2):
                form += 1
                variants = []
                for vi, (kind, tys) in enumerate(vi_shapes):
                    at = [i for i, t in enumerate(tys) if t == "u16"][-1 if vi % 2 else 0]
                    fs = []
                    for i, t in enumerate(tys):
                        if i == at:
                            spm, m = into_mark("u16", "u16", True, form + sp)
                            fs.append(Field(NAMES[i] if kind == "named" else None, t, attrs=[spm], into={"marks": {"u16": m}}))
                        else:
                            fs.append(Field(NAMES[i] if kind == "named" else None, t, into={"marks": {}}))
                    variants.append(Variant("V%d" % vi if kindp == "enum" else None, kind, fs))
                out.append(into_program(c.pid(), kindp, variants, ["u16"], "%s method on a field of the target type %s" % (kindp, vi_shapes), form))
    return out


WIDEN_T = {("u8", "u16"), ("u8", "u32"), ("u16", "u32"), ("u8", "u64"), ("u16", "u64"), ("u32", "u64"), ("bool", "u8"), ("bool", "u32"), ("bool", "u16")}


def canaries_into(programs):
    out = []
    picks = [p for p in programs if p.kind == "struct" and len(p.variants[0].fields) >= 2
             and len([f for f in p.variants[0].fields if f.ty == "u8"]) >= 2 and any(f.s("into", "marks") for f in p.variants[0].fields)]
    for P in picks[:2]:
        Q = P.clone(); Q.pid = P.pid + "_canary"; Q.canary_of = P.pid
        fs = Q.variants[0].fields
        src = [f for f in fs if f.s("into", "marks")][0]
        T = list(src.s("into", "marks"))[0]
        dst = [f for f in fs if f is not src and f.ty == src.ty]
        if not dst:
            continue
        mk = dict(src.sem["into"]["marks"]); m = mk.pop(T)
        src.sem["into"] = {"marks": mk}
        dst[0].sem["into"] = {"marks": dict(dst[0].s("into", "marks", {}), **{T: m})}
        Q.note = "CANARY (oracle designates a same-typed neighbour) of " + P.pid
        out.append(Q)
    return out


# ---------------------------------------------------------------------------------
# C04: enum layout grid.  Payload kinds for the Kani twin (concrete, real layouts) and a
# generic payload (T0) for the layout-independent Verus proof.
PAYLOADS = {
    "none": None, "u8": "u8", "bool": "bool", "char": "char", "ref": "&'static u8", "nz": "core::num::NonZeroU8",
    "opt": "Option<u8>", "nest": "crate::m::Nest", "unit": "()", "zst": "[u8; 0]", "u32": "u32", "gen": "T0",
}
DISCRS = {
    "implicit": lambda n: [None] * n,
    "five": lambda n: [5] + [None] * (n - 1),
    "neg": lambda n: [-1] + [None] * (n - 1),
    "neg3": lambda n: [-3] + [None] * (n - 1),
    "b127": lambda n: [126] + [None] * (n - 1),
    "b128": lambda n: [127] + [None] * (n - 1),          # second variant is 128: does not fit i8
    "b200": lambda n: [200] + [None] * (n - 1),
    "b255": lambda n: ([None] * (n - 1) + [255]) if n > 1 else [255],
    "k1000": lambda n: [1000] + [None] * (n - 1),
    "nonmono": lambda n: [2, 1, 0, -1][:n],
    "mixed": lambda n: [None, 10, None, 3][:n],
    "i64": lambda n: [-5000000000, None, 5000000000, None][:n],
    "imin": lambda n: [-128, None, 127, None][:n],
    # negative literals whose absolute values increase in declaration order while the values themselves do not
    "errno": lambda n: [-1, -2, -5, -9][:n],
    "i32edge": lambda n: [1, 0x7FFFFFFE, None, None][:n],       # counts past i32::MAX
    "posneg": lambda n: [5, -10, None, None][:n],
}


def fits(vals, ty):
    lo, hi = {"u8": (0, 255), "i8": (-128, 127), "u16": (0, 65535), "i16": (-32768, 32767), "i32": (-2**31, 2**31 - 1),
              "u32": (0, 2**32 - 1), "i64": (-2**63, 2**63 - 1), "isize": (-2**63, 2**63 - 1), "u64": (0, 2**64 - 1)}[ty]
    return all(lo <= v <= hi for v in vals)


# discriminants written as expressions (legal with an integer repr): (source text, value)
DISCR_EXPRS = {
    "shl": [("1 << 2", 4), None, ("1 << 3", 8), None, ("1 << 4", 16)],
    "or": [("6 | 1", 7), None, None, ("10", 10)],
    "mul": [("2 * 3", 6), None, ("(1 << 3)", 8), None],
    "and_xor": [("0xF & 6", 6), None, ("6 ^ 15", 9), None],
    "sub": [("10 - 3", 7), None, ("20 - 8", 12)],
    "neg_paren": [("-(3)", -3), None, ("1 + 1", 2), None],
    # non-integer-literal discriminants mixed with integer literals: byte literals, a constant
    "bytelit": [("0", 0), ("b'\\t'", 9), ("27", 27), ("b' '", 32), ("127", 127)],
    "constmix": [("1", 1), ("crate::m::HIGH", 200), None, ("100", 100)],
    "constfirst": [("crate::m::HIGH", 200), None, ("3", 3), None],
    # unsigned reprs with discriminants in the upper half of the type (a signed reading of the same bits sorts them first)
    "umax": [("1", 1), ("usize::MAX / 2 + 1", 2**63), None, ("usize::MAX", 2**64 - 1)],
    "u64top": [("5", 5), ("u64::MAX - 1", 2**64 - 2), None, ("2", 2)],
    "u32top": [("0x8000_0000", 2**31), None, ("7", 7), ("u32::MAX", 2**32 - 1)],
    "u16top": [("0xFFFF", 65535), ("3", 3), ("0x8000", 32768), None],
    # expressions whose value depends on the type their literals are given: typed as the repr type (as rustc types a
    # discriminant) `!0 / 2` is 127 for u8; typed as i32 and cast afterwards it is 0
    "notdiv": [("!0 / 2", 127), ("100", 100), ("!0 >> 2", 63), None],
    "notdiv16": [("!0 / 3", 21845), ("7", 7), ("!0 >> 15", 1), None],
}
UNSIGNED_TOP = {"umax": ["usize"], "u64top": ["u64"], "u32top": ["u32"], "u16top": ["u16"], "notdiv": ["u8"], "notdiv16": ["u16"]}


def layout_enum(pid, payloads, dname, repr_, md, note_extra="", neighbours=False):
    n = len(payloads)
    if dname in DISCR_EXPRS:
        ds = [(d[1] if d else None) for d in DISCR_EXPRS[dname][:n]]
    else:
        ds = DISCRS[dname](n)
    variants = []
    generics = []
    for i, pk in enumerate(payloads):
        ty = PAYLOADS[pk]
        if ty is None:
            v = Variant("V%d" % i, "unit", [], discr=ds[i])
        else:
            if ty == "T0" and "T0" not in generics:
                generics.append("T0")
            kind = "tuple" if i % 2 == 0 else "named"
            v = Variant("V%d" % i, kind, [Field("x" if kind == "named" else None, ty, ord={})], discr=ds[i])
        variants.append(v)
    P = ord_program(pid, "enum", "E", variants, md, generics, 0, "layout enum payloads=%s discr=%s repr=%s mode=%s%s"
                    % ("/".join(payloads), dname, repr_, md, note_extra), prop="C04", repr_=repr_)
    P.inst = {"T0": "u8"}
    if dname in DISCR_EXPRS:
        for v, d in zip(variants, DISCR_EXPRS[dname][:n]):
            if d:
                v.sem["discr_src"] = d[0]
        if dname in ("shl", "or", "mul", "and_xor", "bytelit", "constmix", "constfirst") or dname in UNSIGNED_TOP:
            P.tags["no_verus"] = "bit-vector discriminant expression: Verus needs by(bit_vector) hints inside the verbatim body (an edit of the verified text); decided by Kani"
    if any(PAYLOADS[p] not in (None, "T0") for p in payloads):
        P.tags["no_verus"] = "concrete payload types (layout grid): decided by Kani on the real layout"
    if neighbours:
        P.tags["neighbours"] = True
    return P


def c04(tier, seed):
    rnd = random.Random(seed)
    c = Counter()
    out = []
    form = 0
    # (A) generic payloads: layout-independent Verus proof + u8 twin; discriminant configs x reprs
    reprs_for = {"implicit": [None, "u8", "i8", "C", "u16", "i32", "isize"], "five": [None, "u8", "i16"], "neg": [None, "i8", "i32"], "neg3": ["i16", "i64"],
                 "b127": [None, "i8", "u8"], "b128": [None, "u8", "i16"], "b200": [None, "u8", "i32"], "b255": [None, "u8"], "k1000": [None, "u16", "i32"],
                 "nonmono": [None, "i8", "i32"], "mixed": [None, "u8"], "i64": [None, "i64"], "imin": [None, "i8"],
                 "errno": [None, "i8", "i32"], "posneg": [None, "i8", "i16"], "i32edge": [None, "C", "i64"]}
    shapes = [("none", "none", "none"), ("gen", "none", "gen"), ("none", "gen"), ("gen",), ("gen", "gen", "none", "gen"), ("none", "none"), ("none", "none", "none", "none")]
    for dname, reprs in reprs_for.items():
        for repr_ in reprs:
            for sh in shapes:
                n = len(sh)
                ds = DISCRS[dname](n)
                if len(ds) < n:
                    continue
                # explicit discriminants on non-unit variants need an integer repr
                has_payload = any(p != "none" for p in sh)
                explicit = any(d is not None for d in ds)
                if has_payload and explicit and repr_ in (None, "C"):
                    continue
                vals = []
                cur = -1
                for d in ds:
                    cur = d if d is not None else cur + 1
                    vals.append(cur)
                if len(set(vals)) != len(vals):
                    continue
                if repr_ not in (None, "C") and not fits(vals, repr_):
                    continue
                if repr_ in (None, "C") and not fits(vals, "isize"):
                    continue
                form += 1
                if tier == "quick" and form % 3 != 0 and dname not in ("b128", "nonmono", "b255", "errno", "posneg", "i32edge"):
                    continue
                md = "both" if form % 2 == 0 else "po"
                out.append(layout_enum(c.pid(), sh, dname, repr_, md))
    # (A2) discriminants written as binary / parenthesised expressions (need an integer repr)
    for dname in DISCR_EXPRS:
        for repr_ in (UNSIGNED_TOP[dname] if dname in UNSIGNED_TOP else ["i8", "i32"] if dname == "neg_paren" else (["u8"] if dname in ("bytelit", "constmix", "constfirst") else ["u8", "i16"])):
            for sh in (("none", "none", "none", "none", "none"), ("gen", "none", "gen", "none"), ("none", "gen", "none")):
                if len(sh) > len(DISCR_EXPRS[dname]):
                    sh = sh[:len(DISCR_EXPRS[dname])]
                form += 1
                out.append(layout_enum(c.pid(), sh, dname, repr_, "both" if form % 2 == 0 else "po"))
    # (A3) compound repr lists: the integer type is not the first (or not the only) entry of #[repr(..)]
    for dname, repr_ in (("b200", "C, u8"), ("b200", "u8, C"), ("b128", "C, u8"), ("b255", "C, u8"), ("neg", "C, i8"), ("neg", "i8, C"),
                         ("k1000", "C, u16"), ("implicit", "C, u8"), ("nonmono", "C, i8")):
        for sh in (("gen", "none", "gen"), ("none", "gen"), ("gen", "gen", "none", "gen")):
            n = len(sh)
            ds = DISCRS[dname](n)
            if len(ds) < n:
                continue
            form += 1
            if tier == "quick" and form % 2 and dname not in ("b200", "b128"):
                continue
            out.append(layout_enum(c.pid(), sh, dname, repr_, "both" if form % 2 == 0 else "po"))
    # (A4) more variants than a signed one-byte tag can number: the inferred discriminant type has to widen by COUNT
    # (130 variants: 0..=129 leaves i8; starting at -3 it still fits; starting at 100 it leaves u8 as well)
    for start, repr_, md in ((None, None, "both"), (-3, "i16", "po"), (100, "u16", "both"), (-128, "i8", "both"), (200, "u8", "po")):
        if tier == "quick" and start is not None and repr_ not in ("i8",):
            continue
        vs = []
        nvar = 140 if repr_ == "i8" else (56 if repr_ == "u8" else (60 if repr_ == "i16" else 130))      # (130 PartialOrd-only variants with the operator assertions: 20 min in CBMC)      # i8: -128..=11 ; u8: 200..=255 : the counted offset
        for i in range(nvar):                                                 # exceeds what the repr type can hold as a literal
            d = start if i == 0 else None
            if i in (0, nvar - 1):
                vs.append(Variant("V%d" % i, "tuple", [Field(None, "u8", ord={})], discr=d))
            else:
                vs.append(Variant("V%d" % i, "unit", [], discr=d))
        P = ord_program(c.pid(), "enum", "E", vs, md, [], 0, "layout enum with %d variants first=%s repr=%s mode=%s" % (nvar, start, repr_, md), prop="C04", repr_=repr_)
        P.tags["no_verus"] = "130 x 130 case split: decided by Kani (loop-free, full domain)"
        out.append(P)
    # (B) concrete payload grid (Kani, real layouts)
    pls = ["u8", "bool", "char", "ref", "nz", "opt", "nest", "unit", "zst", "u32"]
    grid = []
    for pk in pls:
        grid += [((pk,), "implicit", None), ((pk, "none"), "implicit", None), (("none", pk), "implicit", None),
                 (("none", pk, "none"), "implicit", None), ((pk, pk), "implicit", None), (("none", "none", pk), "nonmono", "i8"),
                 ((pk, "none"), "b200", "u8"), (("none", pk), "neg", "i32")]
        if tier != "quick":
            grid += [((pk, "none", pk, "none"), "implicit", None), ((pk, pk, pk), "implicit", "C"), (("none", pk, "none", "none"), "mixed", "u8"),
                     ((pk,), "five", "u16"), ((pk, "none", "none"), "k1000", "i32"), (("none", pk), "i64", "i64")]
    grid += [(("u8", "none"), "b200", "C, u8"), (("none", "u8"), "b200", "u8, C"), (("unit", "u8"), "b128", "C, u8"), (("u32", "none"), "b200", "C, u8"),
             (("zst", "zst"), "b200", "C, u8"), (("u8", "u8"), "neg", "C, i8"), (("bool", "none"), "b255", "C, u8")]
    grid += [(("none",), "implicit", None), (("none",), "five", None), (("unit",), "implicit", None), (("zst", "zst"), "implicit", None),
             (("bool", "bool"), "implicit", None), (("opt", "nest", "none"), "implicit", None), (("ref", "nz"), "implicit", None)]
    for gi, (sh, dname, repr_) in enumerate(grid):
        form += 1
        md = "both" if form % 2 == 0 else "po"
        out.append(layout_enum(c.pid(), sh, dname, repr_, md, neighbours=(gi % 4 == 0)))
    return out


def canaries_c04(programs):
    out = []
    # the mutation (first variant believed to sort last) must change the order: the first variant is not already the greatest
    live = lambda p: len(p.variants) >= 2 and p.discriminants()[0] != max(p.discriminants())
    gens = [p for p in programs if not p.tags.get("no_verus") and live(p)]
    conc = [p for p in programs if p.tags.get("no_verus") and live(p)]
    for P in gens[:1] + gens[-1:] + conc[:1]:
        Q = P.clone(); Q.pid = P.pid + "_canary"; Q.canary_of = P.pid
        d = Q.discriminants()
        Q.variants[0].discr = max(d) + 10       # oracle believes the first variant sorts last
        for v, x in zip(Q.variants[1:], d[1:]):
            v.discr = x
        Q.note = "CANARY (oracle uses a wrong discriminant for the first variant) of " + P.pid
        out.append(Q)
    return out


# ---------------------------------------------------------------------------------
# C06
DBG_METHODS = ["crate::m::fmt_a", "crate::m::fmt_b", "crate::m::fmt_g"]     # fmt_g is generic over the value type


def dbg_type_meta(name, named_field, form):
    """spelled type-/variant-level Debug meta (or None)"""
    ps = []
    if isinstance(name, str) and name != "default":
        if named_field is None and form % 5 == 0:
            return "Debug = %s" % (name if form % 2 else '"%s"' % name)
        ps.append(["name = %s", "name(%s)", 'rename = "%s"', 'name("%s")', "rename(%s)"][form % 5] % name)
    elif name is True and name != "default":
        ps.append(["name = true", "name(true)"][form % 2])
    elif name is False:
        ps.append(["name = false", "name(false)", "rename = false"][form % 3])
    if named_field is not None:
        ps.append(["named_field = %s", "named_field(%s)"][form % 2] % ("true" if named_field else "false"))
    if (form // 2) % 2:      # order independent of the value spellings (form % 2, % 3, % 5)
        ps.reverse()
    return "Debug(%s)" % ", ".join(ps) if ps else None


def dbg_field(name, ty, a, form, struct_style):
    """a: 'n' plain, 'i' ignore, 'k' renamed key (struct style only)"""
    sem = {"ignore": a in "ib", "key": None, "method": None}
    attrs = []
    if a == "m":
        # custom method on a u8 field (caller sets the field type)
        m = DBG_METHODS[form % 3]
        sem["method"] = m
        attrs.append("Debug(%s)" % spell_param("method", m, form))
        return Field(name, "u8", attrs=attrs, debug=sem)
    if a == "M" and struct_style:
        m = DBG_METHODS[form % 2]
        sem["method"] = m; sem["key"] = ["mk%d" % (form % 5), "right", "_m", "rm%d" % (form % 3)][form % 4]
        two = [spell_param("method", m, form), ["name = %s", "rename(%s)"][form % 2] % sem["key"]]
        if (form // 2) % 2:
            two.reverse()
        attrs.append("Debug(%s)" % ", ".join(two))
        return Field(name, "u8", attrs=attrs, debug=sem)
    if a == "I":
        # ignored AND given a method: ignore wins, nothing is shown and the method never runs
        m = DBG_METHODS[form % 3]
        sem["ignore"] = True
        two = [["ignore", "ignore = true", "ignore(true)"][form % 3], spell_param("method", m, form // 3)]
        if (form // 2) % 2:
            two.reverse()
        attrs.append("Debug(%s)" % ", ".join(two))
        return Field(name, "u8", attrs=attrs, debug=sem)
    if a == "b" and struct_style:
        # ignored AND renamed: ignore wins, nothing is shown
        attrs.append(["Debug(ignore, name = zz)", "Debug(rename(zz), ignore)", 'Debug(name = "zz", ignore = true)'][form % 3])
    elif a in "ib":
        attrs.append(["Debug(ignore)", "Debug = false", "Debug(ignore = true)", "Debug(ignore(true))"][form % 4])
    elif a == "k" and struct_style:
        # key texts of different make: the shown key is the identifier as written, whatever it starts with
        k = ["k%d" % (form % 7), "rate", "_k", "r", "Key", "r_r", "fn_", "x%d" % (form % 7), "result"][form % 9]
        sem["key"] = k
        attrs.append(["Debug(name = %s)", "Debug = %s", "Debug(rename(%s))", 'Debug(name = "%s")', 'Debug = "%s"', "Debug(name(%s))"][form % 6] % k)
    return Field(name, ty, attrs=attrs, debug=sem)


def c06(tier, seed):
    rnd = random.Random(seed)
    c = Counter()
    out = []
    form = 0
    names = [("default", "default"), ("Renamed", "custom"), (False, "off"), ("renamed", "custom, lower case r"), ("_R", "custom, underscore")]
    maxn = 3 if tier == "quick" else 4
    for shape in ("named", "tuple"):
        for n in range(0, maxn + 1):
            for tn, _ in names:
                for nf in (None, shape != "named"):
                    struct_style = (shape == "named") if nf is None else nf
                    if tn in ("renamed", "_R") and tier == "quick" and (n > 1 or nf is not None):
                        continue
                    if tn is False and (n == 0 or struct_style):
                        continue          # nameless unit shape is rejected; nameless struct style is the debug_map form (outside Verus)
                    assigns = list(itertools.product("nik" if struct_style else "ni", repeat=n))
                    if tier == "quick" and len(assigns) > 6:
                        assigns = assigns[form % 3::max(1, len(assigns) // 6)][:6]
                    for assign in assigns:
                        if tn is False and all(a == "i" for a in assign):
                            continue      # nothing left to show without a name: rejected by educe
                        form += 1
                        generics = ["T%d" % i for i in range(n)]
                        fnames = HOSTILE if form % 5 == 0 else NAMES
                        fields = [dbg_field(fnames[i] if shape == "named" else None, generics[i], a, form + i, struct_style) for i, a in enumerate(assign)]
                        meta = dbg_type_meta(tn, nf, form)
                        P = Program(c.pid(), "struct", "S", [Variant(None, shape, fields)], [meta or "Debug"], generics=generics,
                                    inst={g: "u8" for g in generics}, focus={"Debug"},
                                    note="struct %s n=%d name=%s named_field=%s fields=%s" % (shape, n, tn, nf, "".join(assign) or "-"),
                                    debug={"name": tn, "named_field": nf})
                        out.append(P)
    for tn in ("default", "Renamed"):
        form += 1
        out.append(Program(c.pid(), "struct", "S", [Variant(None, "unit", [])], [dbg_type_meta(tn, None, form) or "Debug"], focus={"Debug"},
                           note="unit struct name=%s" % tn, debug={"name": tn, "named_field": None}))
    # enums
    vkinds = [("unit", 0), ("tuple", 1), ("named", 2), ("tuple", 2), ("named", 1), ("named", 3)]
    tnames = [("default", "enum name off"), (True, "enum name on"), ("Ren", "enum renamed")]
    combos = [(0,), (1,), (2,), (0, 1, 2), (3, 4, 0), (2, 2), (1, 3, 5, 0), (5, 0, 1), (0, 0, 0), (4, 2, 3, 1)]
    if tier != "quick":
        combos += [tuple(rnd.randrange(6) for _ in range(rnd.choice((2, 3, 4, 5)))) for _ in range(180)]
    for ci, combo in enumerate(combos):
        for tn, _ in tnames:
            for vmode in range(3):
                form += 1
                generics, variants = [], []
                for vi, ki in enumerate(combo):
                    kind, m = vkinds[ki]
                    # variant-level name: default / disabled / custom ; named_field flip on some
                    vn = [True, False, ["Q%d", "r%d", "_v%d"][(vi + ci) % 3] % vi][(vi + vmode) % 3]
                    vnf = None if (vi + vmode + ci) % 3 else (kind != "named")
                    if kind == "unit":
                        vnf = None
                    struct_style = (kind == "named") if vnf is None else vnf
                    tshown = None if tn == "default" else tn
                    if vn is False and tshown is None and not (struct_style and m > 0):
                        vn = True      # no name shown in an enum (struct style with fields = debug_map form is fine): unit rejected, struct style = debug_map form, tuple style does not compile on the pinned tree (C01 defect: `f.debug_tuple()`)
                    fs = []
                    for j in range(m):
                        a = ["n", "i", "k", "n"][(form + vi + j) % 4]
                        ty = "T%d" % ((vi + j) % 3)
                        if ty not in generics:
                            generics.append(ty)
                        fs.append(dbg_field(vnames(ci + vi)[j] if kind == "named" else None, ty, a, form + vi + j, struct_style))
                    if vn is False and tshown is None and all(f.s("debug", "ignore") for f in fs):
                        vn = True      # nothing at all would be shown: rejected ("a unit struct needs to have a name", C13), not a member
                    vmeta = dbg_type_meta(vn if vn is not True else "default", vnf, form + vi)
                    variants.append(Variant("V%d" % vi, kind, fs, attrs=[vmeta] if vmeta else [], debug={"name": vn, "named_field": vnf}))
                generics.sort()
                meta = dbg_type_meta(tn, None, form)
                out.append(Program(c.pid(), "enum", "E", variants, [meta or "Debug"], generics=generics, inst={g: "u8" for g in generics},
                                   focus={"Debug"}, note="enum %s type-name=%s vmode=%d" % (combo, tn, vmode),
                                   debug={"name": tn, "named_field": None}))
    return out


def canaries_debug(programs):
    out = []
    picks = [p for p in programs if p.kind == "struct" and len(p.variants[0].fields) >= 2 and not any(f.s("debug", "ignore") for f in p.variants[0].fields)]
    for P in picks[:1] + picks[-1:]:
        Q = P.clone(); Q.pid = P.pid + "_canary"; Q.canary_of = P.pid
        Q.variants[0].fields[-1].sem["debug"] = dict(Q.variants[0].fields[-1].sem["debug"], ignore=True)
        Q.note = "CANARY (oracle omits the last field) of " + P.pid
        out.append(Q)
    ms = [p for p in programs if p.kind == "struct" and any(f.s("debug", "method") for f in p.variants[0].fields)]
    for P in ms[:1] + [p for p in ms if p.s("debug", "name") is False][:1]:
        Q = P.clone(); Q.pid = P.pid + "_canary"; Q.canary_of = P.pid
        for f in Q.variants[0].fields:
            if f.s("debug", "method"):
                f.sem["debug"] = dict(f.sem["debug"], method="crate::m::fmt_b" if f.s("debug", "method").endswith("fmt_a") else "crate::m::fmt_a")
                break
        Q.note = "CANARY (oracle expects the other Debug method) of " + P.pid
        out.append(Q)
    for P in [p for p in ms if p.s("debug", "name") is False][1:2]:
        Q = P.clone(); Q.pid = P.pid + "_canary"; Q.canary_of = P.pid
        f = Q.variants[0].fields[0]
        f.sem["debug"] = dict(f.sem["debug"], key="wrongkey")
        Q.note = "CANARY (oracle expects another map key) of " + P.pid
        out.append(Q)
    es = [p for p in programs if p.kind == "enum" and len(p.variants) >= 2]
    for P in es[4:5]:
        Q = P.clone(); Q.pid = P.pid + "_canary"; Q.canary_of = P.pid
        Q.sem["debug"] = dict(Q.sem["debug"], name="Wrong")
        Q.note = "CANARY (oracle expects another enum name) of " + P.pid
        out.append(Q)
    return out


# ---------------------------------------------------------------------------------
# C20 unions (padding-free, every bit pattern valid)
UNIONS = [
    ([("a", "[u8; 4]"), ("b", "u32")], 4, []),
    ([("a", "u8"), ("b", "u8")], 1, []),
    ([("a", "[u8; 8]"), ("b", "u64"), ("c", "[u16; 4]")], 8, []),
    ([("a", "u16")], 2, []),
    ([("a", "T0"), ("b", "[u8; 4]")], 4, ["T0: Copy"]),
    ([("a", "[u8; 3]"), ("b", "u8")], 3, []),
    ([("a", "i32"), ("b", "[i8; 4]"), ("c", "u32")], 4, []),
    ([("a", "[u8; 16]"), ("b", "u128")], 16, []),
    ([("a", "[u8; 2]"), ("b", "[u8; 2]")], 2, []),
    # size_of::<Self>() exceeds the widest field (alignment tail): the tail bytes count too
    ([("a", "[u8; 3]"), ("b", "u16")], 4, []),
    ([("a", "[u8; 5]"), ("b", "u32")], 8, []),
    ([("a", "[T0; 3]"), ("b", "T1")], 4, ["T0: Copy", "T1: Copy"]),
    ([("a", "u8")], 8, [], "align(8)"),
    # zero-sized unions: no bytes, but Hash still writes the (empty) slice with its length prefix
    ([("a", "()"), ("b", "[u8; 0]")], 0, []),
    ([("a", "[u16; 0]")], 0, []),
    ([("a", "u16"), ("b", "u8")], 4, [], "align(4)"),
]


def c20(tier, seed):
    c = Counter()
    out = []
    form = 0
    trait_sets = [["PartialEq(unsafe)"], ["Hash(unsafe)"], ["Clone", "Copy"], ["PartialEq(unsafe)", "Eq", "Hash(unsafe)", "Clone", "Copy"],
                  ["Clone"], ["Hash(unsafe)", "PartialEq(unsafe)"]]
    for urow in UNIONS:
        fields, size, generics = urow[:3]
        urepr = urow[3] if len(urow) > 3 else None
        for ts in trait_sets if tier != "quick" else trait_sets[:5]:
            form += 1
            fs = [Field(n, t) for n, t in fields]
            focus = {t.split("(")[0] for t in ts} & {"PartialEq", "Hash", "Clone"}
            inst = {"T0": "u32"} if len(generics) == 1 else {"T0": "u8", "T1": "u16"}
            P = Program(c.pid(), "union", "U", [Variant(None, "named", fs)], ts, generics=generics, inst=inst, focus=focus, repr_=urepr,
                        note="union %s size=%d repr=%s traits=%s" % (fields, size, urepr, ts), union={"size": size},
                        extra_derive=(["Copy"] if ts == ["Clone"] else []))       # Clone educed alone: Copy comes from std's derive
            P.tags["mk"] = ("pub fn mk<Z9: Src>(s: &mut Z9) -> TI { let mut b = [0u8; %d]; let mut i = 0; while i < %d { b[i] = s.u8(); i += 1; } "
                            "unsafe { core::mem::transmute_copy::<[u8; %d], TI>(&b) } }" % (size, size, size))
            P.tags["no_verus"] = "unions / raw byte views are outside Verus' subset"
            P.tags["prop"] = "C20"
            out.append(P)
    # Debug on unions: the type name (or nothing) and the size_of::<Self>() bytes as one slice; Verus on the verbatim impl
    # with the raw byte view and the slice's own Debug replaced by stubs (t_union.post_render), native replay on failure
    dbg_sets = [("Debug(unsafe, name = raw_bytes)", "raw_bytes"), ("Debug(unsafe)", "default"), ("Debug(unsafe, name = false)", False), ("Debug(unsafe, name(Other))", "Other"), ("Debug(unsafe, name(false))", False),
                ('Debug(unsafe, rename = "Other")', "Other"), ('Debug(unsafe, name = "")', False)]
    for ui, urow in enumerate(UNIONS):
        fields, size, generics = urow[:3]
        urepr = urow[3] if len(urow) > 3 else None
        for di, (meta, nm) in enumerate(dbg_sets):
            if tier == "quick" and (ui + di) % 3 and not (size in (4, 8) and ui >= 9 and di < 2):
                continue
            fs = [Field(n, t) for n, t in fields]
            inst = {"T0": "u32"} if len(generics) == 1 else {"T0": "u8", "T1": "u16"}
            P = Program(c.pid(), "union", "U", [Variant(None, "named", fs)], [meta], generics=generics, inst=inst, focus={"Debug"}, repr_=urepr,
                        note="union %s size=%d repr=%s traits=%s" % (fields, size, urepr, [meta]), union={"size": size}, debug={"name": nm},
                        extra_derive=["Clone", "Copy"])
            P.tags["mk"] = ("pub fn mk<Z9: Src>(s: &mut Z9) -> TI { let mut b = [0u8; %d]; let mut i = 0; while i < %d { b[i] = s.u8(); i += 1; } "
                            "unsafe { core::mem::transmute_copy::<[u8; %d], TI>(&b) } }" % (size, size, size))
            P.tags["prop"] = "C20"
            out.append(P)
    # Default on unions (designated field), same contract as C08 but counted here
    for P in [p for p in _c08(tier, seed) if p.kind == "union"]:
        P.pid = c.pid()
        P.tags["prop"] = "C20"
        P.tags.setdefault("mk", "// Default takes no inputs")
        P.tags["no_verus"] = "unions are outside Verus' subset"
        out.append(P)
    return out


def canaries_c20(programs):
    out = []
    picks = [p for p in programs if "PartialEq" in p.focus and p.s("union", "size", 0) >= 4]
    for P in picks[:1]:
        Q = P.clone(); Q.pid = P.pid + "_canary"; Q.canary_of = P.pid
        Q.sem["union"] = {"size": P.s("union", "size") - 1}       # oracle compares one byte too few
        Q.tags["mk"] = P.tags["mk"]
        Q.note = "CANARY (oracle compares one byte too few; size_ok must fail) of " + P.pid
        out.append(Q)
    dbg = [p for p in programs if p.kind == "union" and "Debug" in p.focus]
    for P in [p for p in dbg if p.s("debug", "name") == "default"][:1] + [p for p in dbg if p.s("debug", "name") is False][:1]:
        Q = P.clone(); Q.pid = P.pid + "_canary"; Q.canary_of = P.pid
        Q.sem["debug"] = {"name": "Wrong" if P.s("debug", "name") == "default" else "default"}
        Q.tags["mk"] = P.tags["mk"]
        Q.tags["canary_engines"] = ["verus"]
        Q.note = "CANARY (oracle expects another / a type name in the union's Debug output) of " + P.pid
        out.append(Q)
    return out


# ---------------------------------------------------------------------------------
# C14: every documented spelling of one request satisfies the one contract of its meaning
def flag_forms(carrier, name="ignore"):
    return ["%s(%s)" % (carrier, name), "%s(%s = true)" % (carrier, name), "%s(%s(true))" % (carrier, name)]


def val_forms(name, v):
    return ["%s = %s" % (name, v), "%s(%s)" % (name, v), '%s = "%s"' % (name, v), '%s("%s")' % (name, v)]


def c14(tier, seed):
    c = Counter()
    out = []

    def add(P):
        P.tags["prop"] = "C14"
        out.append(P)
        return P

    # ---- PartialEq: ignore x method spellings, carrier PartialEq / Eq, joined vs split attributes, trait order
    ign = flag_forms("PartialEq") + ["PartialEq = false"]
    for i, isp in enumerate(ign):
        for j, msp in enumerate(val_forms("method", "crate::m::eq_a")):
            for carrier in ("PartialEq", "Eq"):
                fs = [Field("a", "T0", eq={}),
                      Field("b", "T1", attrs=[isp.replace("PartialEq", carrier)], eq={"ignore": True}),
                      Field("c", "u8", attrs=["%s(%s)" % (carrier, msp)], eq={"method": "crate::m::eq_a"})]
                traits = ["PartialEq", "Eq"] if (i + j) % 2 else ["Eq", "PartialEq"]
                P = add(Program(c.pid(), "struct", "S", [Variant(None, "named", fs)], traits, generics=["T0", "T1"], inst={"T0": "u8", "T1": "f32"},
                                focus={"PartialEq"}, note="C14 PartialEq ignore=`%s` method=`%s` carrier=%s" % (isp, msp, carrier)))
                if (i + j) % 3 == 0:
                    P.type_attrs = [[t] for t in traits]
    # ---- Ord / PartialOrd: ignore x method x rank spellings (negative, string, parenthesised)
    for md, carrier0, meth in (("both", "Ord", "crate::m::cmp_a"), ("both", "PartialOrd", "crate::m::cmp_b"), ("po", "PartialOrd", "crate::m::pcmp_a")):
        ign = flag_forms(carrier0) + ["%s = false" % carrier0]
        for i, isp in enumerate(ign):
            for j, msp in enumerate(val_forms("method", meth)):
                rsp_neg = val_forms("rank", "-2")[(i + j) % 4]
                rsp_pos = val_forms("rank", "7")[(i + 2 * j) % 4]
                order = (i + j) % 2
                ps_c = [msp, rsp_pos] if order else [rsp_pos, msp]
                fs = [Field("a", "T0", attrs=["%s(%s)" % (carrier0, rsp_neg)], ord={"rank": -2}),
                      Field("b", "T1", attrs=[isp], ord={"ignore": True}),
                      Field("c", "u8", attrs=["%s(%s)" % (carrier0, ", ".join(ps_c))], ord={"method": meth, "rank": 7}),
                      Field("d", "T1", ord={})]
                P = ord_program(c.pid(), "struct", "S", [Variant(None, "named", fs)], md, ["T0", "T1"], i + j,
                                "C14 %s ignore=`%s` method=`%s` ranks=`%s`,`%s`" % (carrier0, isp, msp, rsp_neg, rsp_pos), prop="C14")
                out.append(P)
    # rank spellings alone, all four forms on each of two fields, tuple struct
    for i, r1 in enumerate(val_forms("rank", "3")):
        for j, r2 in enumerate(val_forms("rank", "-4")):
            fs = [Field(None, "T0", attrs=["Ord(%s)" % r1], ord={"rank": 3}), Field(None, "T0", ord={}), Field(None, "T1", attrs=["Ord(%s)" % r2], ord={"rank": -4})]
            out.append(ord_program(c.pid(), "struct", "S", [Variant(None, "tuple", fs)], "both", ["T0", "T1"], i + j, "C14 rank forms `%s` `%s`" % (r1, r2), prop="C14"))
    # ---- integer literal forms of rank: hexadecimal, underscores, octal, binary, typed suffix
    for j, (r1, v1, r2, v2) in enumerate([("0x10", 16, "1_0", 10), ("0o7", 7, "0b11", 3), ("5isize", 5, "-0x2", -2), ('"0"', 0, "-1_0", -10)]):
        for md, car in (("both", "Ord"), ("po", "PartialOrd")):
            fs = [Field("a", "T0", attrs=["%s(rank = %s)" % (car, r1)], ord={"rank": v1}), Field("b", "T0", attrs=["%s(rank(%s))" % (car, r2)], ord={"rank": v2}),
                  Field("c", "T1", ord={})]
            out.append(ord_program(c.pid(), "struct", "S", [Variant(None, "named", fs)], md, ["T0", "T1"], j, "C14 rank literal forms `%s` `%s` %s" % (r1, r2, car), prop="C14"))
    # ---- every order of the parameters inside one entry, the explicit `ignore = false` included: a parameter must not
    # disturb what an earlier or later one of the same entry has set
    for md, car, meth in (("both", "Ord", "crate::m::cmp_a"), ("both", "PartialOrd", "crate::m::cmp_b"), ("po", "PartialOrd", "crate::m::pcmp_a")):
        for k, perm in enumerate(itertools.permutations(["method = %s" % meth, "rank = -9", "ignore(false)"])):
            two = ["rank = -5", "ignore = false"] if k % 2 else ["ignore = false", "rank = -5"]
            fs = [Field("a", "T0", ord={}), Field("b", "T0", attrs=["%s(%s)" % (car, ", ".join(two))], ord={"rank": -5}),
                  Field("c", "u8", attrs=["%s(%s)" % (car, ", ".join(perm))], ord={"method": meth, "rank": -9}), Field("d", "T1", ord={})]
            out.append(ord_program(c.pid(), "struct", "S", [Variant(None, "named" if k % 3 else "tuple", fs if k % 3 else [Field(None, f.ty, attrs=f.attrs, **f.sem) for f in fs])],
                                   md, ["T0", "T1"], k, "C14 %s parameter order `%s` / `%s`" % (car, ", ".join(perm), ", ".join(two)), prop="C14"))
    # ignore together with method, in both orders and every ignore spelling: ignore wins whatever the order
    for k, perm in enumerate(itertools.permutations(["method = crate::m::eq_a", "IGN"])):
        for gi, ig in enumerate(("ignore", "ignore = true", "ignore(true)")):
            pm = [x.replace("IGN", ig) for x in perm]
            fs = [Field("a", "T0", eq={}), Field("b", "u8", attrs=["PartialEq(%s)" % ", ".join(pm)], eq={"ignore": True, "method": "crate::m::eq_a"})]
            add(Program(c.pid(), "struct", "S", [Variant(None, "named", fs)], ["PartialEq"], generics=["T0"], inst={"T0": "u8"},
                        focus={"PartialEq"}, note="C14 PartialEq parameter order `%s` (ignore wins)" % ", ".join(pm)))
            if gi == k:
                pm2 = [x.replace("eq_a", "hash_a") for x in pm]
                fs = [Field("a", "u16", hash={}), Field("b", "u8", attrs=["Hash(%s)" % ", ".join(pm2)], hash={"ignore": True, "method": "crate::m::hash_a"})]
                add(Program(c.pid(), "struct", "S", [Variant(None, "named", fs)], ["Hash"], focus={"Hash"}, note="C14 Hash parameter order `%s` (ignore wins)" % ", ".join(pm2)))
    for k, perm in enumerate(itertools.permutations(["method = crate::m::eq_a", "ignore = false"])):
        fs = [Field("a", "T0", eq={}), Field("b", "u8", attrs=["PartialEq(%s)" % ", ".join(perm)], eq={"method": "crate::m::eq_a"})]
        add(Program(c.pid(), "struct", "S", [Variant(None, "named", fs)], ["PartialEq"], generics=["T0"], inst={"T0": "u8"},
                    focus={"PartialEq"}, note="C14 PartialEq parameter order `%s`" % ", ".join(perm)))
        perm2 = [x.replace("eq_a", "hash_a") for x in perm]
        fs = [Field("a", "u16", hash={}), Field("b", "u8", attrs=["Hash(%s)" % ", ".join(perm2)], hash={"method": "crate::m::hash_a"})]
        add(Program(c.pid(), "struct", "S", [Variant(None, "named", fs)], ["Hash"], focus={"Hash"}, note="C14 Hash parameter order `%s`" % ", ".join(perm2)))
    # ---- method paths that start with `Self`: the token and the string spellings name the same associated function;
    # a free function of the same name in scope (it panics) must never be the one that runs
    for j, msp in enumerate(val_forms("method", "Self::m9")):
        pre = lambda sig, body: ("impl S { pub fn m9%s { %s } }\npub fn m9%s { panic!(\"the free function m9 was called instead of Self::m9\") }\n" % (sig, body, sig))
        fs = [Field("a", "u16", eq={}), Field("c", "u8", attrs=["PartialEq(%s)" % msp], eq={"method": "crate::m::eq_a"})]
        P = add(Program(c.pid(), "struct", "S", [Variant(None, "named", fs)], ["PartialEq"], focus={"PartialEq"}, note="C14 PartialEq Self-path method=`%s`" % msp))
        P.tags["pre_items"] = pre("(a: &u8, b: &u8) -> bool", "crate::m::eq_a(a, b)")
        P.tags["no_verus"] = "the method is an associated function of the educed type (not part of the expansion): decided by Kani"
        fs = [Field("a", "u16", hash={}), Field("c", "u8", attrs=["Hash(%s)" % msp], hash={"method": "crate::m::hash_a"})]
        P = add(Program(c.pid(), "struct", "S", [Variant(None, "named", fs)], ["Hash"], focus={"Hash"}, note="C14 Hash Self-path method=`%s`" % msp))
        P.tags["pre_items"] = pre("<H9: core::hash::Hasher>(a: &u8, h: &mut H9)", "crate::m::hash_a(a, h)")
        P.tags["no_verus"] = "the method is an associated function of the educed type (not part of the expansion): decided by Kani"
        fs = [Field(None, "u16", ord={}), Field(None, "u8", attrs=["Ord(%s)" % msp], ord={"method": "crate::m::cmp_a"})]
        P = ord_program(c.pid(), "struct", "S", [Variant(None, "tuple", fs)], "both", [], j, "C14 Ord Self-path method=`%s`" % msp, prop="C14")
        P.tags["pre_items"] = pre("(a: &u8, b: &u8) -> core::cmp::Ordering", "crate::m::cmp_a(a, b)")
        P.tags["no_verus"] = "the method is an associated function of the educed type (not part of the expansion): decided by Kani"
        out.append(P)
        fs = [Field("a", "u16", clone={}), Field("c", "u8", attrs=["Clone(%s)" % msp], clone={"method": "crate::m::clone_a"})]
        P = add(clone_program(c.pid(), "struct", "S", [Variant(None, "named", fs)], [], False, "C14 Clone Self-path method=`%s`" % msp, 1))
        P.tags["pre_items"] = pre("(a: &u8) -> u8", "crate::m::clone_a(a)")
        P.tags["no_verus"] = "the method is an associated function of the educed type (not part of the expansion): decided by Kani"
    # ---- explicit "not ignored" spellings: the field must still be compared / hashed / shown
    for j, neg in enumerate(["%s(ignore = false)", "%s(ignore(false))", "%s = true"]):
        fs = [Field("a", "T0", attrs=[neg % "PartialEq"], eq={}), Field("b", "T1", attrs=["PartialEq(ignore)"], eq={"ignore": True}), Field("c", "T0", eq={})]
        add(Program(c.pid(), "struct", "S", [Variant(None, "named", fs)], ["PartialEq"], generics=["T0", "T1"], inst={"T0": "u8", "T1": "f32"},
                    focus={"PartialEq"}, note="C14 PartialEq not-ignored spelling `%s`" % neg))
        for md, car in (("both", "Ord"), ("po", "PartialOrd")):
            fs = [Field("a", "T0", attrs=[neg % car], ord={}), Field("b", "T1", attrs=["%s(ignore)" % car], ord={"ignore": True}), Field("c", "T0", ord={})]
            out.append(ord_program(c.pid(), "struct", "S", [Variant(None, "named", fs)], md, ["T0", "T1"], j, "C14 %s not-ignored spelling `%s`" % (car, neg), prop="C14"))
        fs = [Field("a", "u16", attrs=[neg % "Hash"], hash={}), Field("b", "u8", attrs=["Hash(ignore)"], hash={"ignore": True}), Field("c", "u8", hash={})]
        add(Program(c.pid(), "struct", "S", [Variant(None, "named", fs)], ["Hash"], focus={"Hash"}, note="C14 Hash not-ignored spelling `%s`" % neg))
        fs = [Field("a", "T0", attrs=[neg % "Debug"], debug={}), Field("b", "T0", attrs=["Debug(ignore)"], debug={"ignore": True}), Field("c", "T0", debug={})]
        add(Program(c.pid(), "struct", "S", [Variant(None, "named", fs)], ["Debug"], generics=["T0"], inst={"T0": "u8"}, focus={"Debug"},
                    note="C14 Debug not-ignored spelling `%s`" % neg, debug={"name": "default", "named_field": None}))
        # the same on positionally shown fields: tuple struct, named struct shown as a tuple, tuple variant
        fs = [Field(None, "T0", attrs=[neg % "Debug"], debug={}), Field(None, "T0", attrs=["Debug(ignore)"], debug={"ignore": True}), Field(None, "T0", debug={})]
        add(Program(c.pid(), "struct", "S", [Variant(None, "tuple", fs)], ["Debug"], generics=["T0"], inst={"T0": "u8"}, focus={"Debug"},
                    note="C14 Debug not-ignored spelling `%s` on a tuple struct" % neg, debug={"name": "default", "named_field": None}))
        fs = [Field("a", "T0", attrs=[neg % "Debug"], debug={}), Field("b", "T0", debug={})]
        add(Program(c.pid(), "struct", "S", [Variant(None, "named", fs)], ["Debug(named_field = false)"], generics=["T0"], inst={"T0": "u8"}, focus={"Debug"},
                    note="C14 Debug not-ignored spelling `%s` on a named struct shown as a tuple" % neg, debug={"name": "default", "named_field": False}))
        vs = [Variant("V0", "tuple", [Field(None, "T0", debug={}), Field(None, "T0", attrs=[neg % "Debug"], debug={})], debug={"name": True, "named_field": None}),
              Variant("V1", "unit", [], debug={"name": True, "named_field": None})]
        add(Program(c.pid(), "enum", "E", vs, ["Debug"], generics=["T0"], inst={"T0": "u8"}, focus={"Debug"},
                    note="C14 Debug not-ignored spelling `%s` on a tuple variant" % neg, debug={"name": "default", "named_field": None}))
    for j, nn in enumerate(["Default(new = false)", "Default(new(false))"]):
        fs = [Field("a", "u8", attrs=["Default = 4"], default={"src": "4", "expected": "4u8", "verus": True})]
        P = add(Program(c.pid(), "struct", "S", [Variant(None, "named", fs)], [nn], focus={"Default"}, note="C14 `%s`" % nn, default={"new": False}))
        P.tags["mk"] = "// no inputs"
    # ---- Hash
    ign = flag_forms("Hash") + ["Hash = false"]
    for i, isp in enumerate(ign):
        for j, msp in enumerate(val_forms("method", "crate::m::hash_a")):
            fs = [Field("a", "u16", hash={}), Field("b", "u8", attrs=[isp], hash={"ignore": True}),
                  Field("c", "u8", attrs=["Hash(%s)" % msp], hash={"method": "crate::m::hash_a"})]
            add(Program(c.pid(), "struct", "S", [Variant(None, "named", fs)], ["Hash"], focus={"Hash"}, note="C14 Hash ignore=`%s` method=`%s`" % (isp, msp)))
    # ---- Clone method forms
    for j, msp in enumerate(val_forms("method", "crate::m::clone_a")):
        for shape in ("named", "tuple"):
            fs = [Field("a" if shape == "named" else None, "T0", clone={}), Field("b" if shape == "named" else None, "u8", attrs=["Clone(%s)" % msp], clone={"method": "crate::m::clone_a"})]
            add(clone_program(c.pid(), "struct", "S", [Variant(None, shape, fs)], ["T0"], False, "C14 Clone method=`%s`" % msp, 1))
    # ---- Default: value spellings x new spellings
    for j, (sp, newsp) in enumerate(itertools.product(["Default = 7", "Default(expression = 7)", "Default(expr = 7)", "Default(expression(7))", "Default(expr(7))"],
                                                      ["Default", "Default(new)", "Default(new = true)", "Default(new(true))"])):
        fs = [Field("a", "u8", attrs=[sp], default={"src": "7", "expected": "7u8", "verus": True}), Field("b", "bool", default={"src": None, "expected": "false", "verus": True})]
        P = add(Program(c.pid(), "struct", "S", [Variant(None, "named", fs)], [newsp], focus={"Default"}, note="C14 Default `%s` / `%s`" % (sp, newsp),
                        default={"new": newsp != "Default"}))
        P.tags["mk"] = "// no inputs"
    # the literal `false` (and `true`) as a VALUE, on a type where it is not the type's own default: every spelling keeps it
    for j, sp in enumerate(["Default = %s", "Default(expression = %s)", "Default(expr = %s)", "Default(expression(%s))", "Default(expr(%s))"]):
        for lit in ("false", "true"):
            fs = [Field("a", "Option<bool>", attrs=[sp % lit], default={"src": lit, "expected": "Some(%s)" % lit, "verus": False}),
                  Field("b", "u8", default={"src": None, "expected": "0u8", "verus": True})]
            P = add(Program(c.pid(), "struct", "S", [Variant(None, "named" if j % 2 else "tuple", fs if j % 2 else [Field(None, f.ty, attrs=f.attrs, **f.sem) for f in fs])],
                            ["Default"], focus={"Default"}, note="C14 Default `%s` on Option<bool>" % (sp % lit), default={"new": False}))
            P.tags["mk"] = "// no inputs"
    for j, tl in enumerate(["Default(expression = S { a: 3, b: true })", "Default(expr = S { a: 3, b: true })", "Default(expression(S { a: 3, b: true }))", "Default(expr(S { a: 3, b: true }))",
                            "Default(expression = S { a: 3, b: true }, new)", "Default(new = true, expr(S { a: 3, b: true }))", "Default(expr = S { a: 3, b: true }, new(true))",
                            "Default(new, expression(S { a: 3, b: true }))", "Default(new = false, expr = S { a: 3, b: true })", "Default(expression(S { a: 3, b: true }), new(false))"]):
        fs = [Field("a", "u8", default={"expected": "x"}), Field("b", "bool", default={"expected": "x"})]
        P = add(Program(c.pid(), "struct", "S", [Variant(None, "named", fs)], [tl], focus={"Default"}, note="C14 type-level `%s`" % tl,
                        default={"new": "new" in tl and "false" not in tl, "type_expected": "S { a: 3u8, b: true }"}))
        P.tags["mk"] = "// no inputs"
    # ---- Into method forms, one list vs several attributes
    for j, msp in enumerate(val_forms("method", "crate::m::into_a")):
        for split in (False, True):
            # a third field of the first target's type: if a marker is lost, the same-type fallback silently picks it
            fs = [Field("a", "u8", attrs=["Into(u16, %s)" % msp, "Into(u32)"], into={"marks": {"u16": "crate::m::into_a", "u32": None}}), Field("b", "u8", into={}),
                  Field("c", "u16", into={})]
            if split:
                fs[0].sem["_split_attrs"] = True
            add(into_program(c.pid(), "struct", [Variant(None, "named", fs)], ["u16", "u32"], "C14 Into method=`%s` split=%s with a same-typed decoy" % (msp, split), 1 if split else 0))
            fs = [Field("a", "u8", attrs=["Into(u32)", "Into(u16, %s)" % msp], into={"marks": {"u16": "crate::m::into_a", "u32": None}}), Field("b", "u32", into={}),
                  Field("c", "u8", into={})]
            if split:
                fs[0].sem["_split_attrs"] = True
            add(into_program(c.pid(), "struct", [Variant(None, "named", fs)], ["u16", "u32"], "C14 Into (u32 first) method=`%s` split=%s with a same-typed decoy" % (msp, split), 1 if split else 0))
            fs = [Field("a", "u8", attrs=["Into(u16, %s)" % msp, "Into(u32)"], into={"marks": {"u16": "crate::m::into_a", "u32": None}}), Field("b", "u8", into={})]
            if split:
                fs[0].sem["_split_attrs"] = True
            P = add(into_program(c.pid(), "struct", [Variant(None, "named", fs)], ["u16", "u32"], "C14 Into method=`%s` split=%s" % (msp, split), 1 if split else 0))
    # ---- Debug: type name forms, bool forms, key forms, ignore forms, named_field forms
    # two name groups: ordinary identifiers, and raw identifiers (`r#type`): the name is the identifier's text as written,
    # `r#` included, in the token forms and in the string forms alike
    for grp, (tnm, knm) in enumerate((("Nn", "kk"), ("r#type", "r#fn"))):
        for j, tsp in enumerate(["Debug = Nn", 'Debug = "Nn"', "Debug(name = Nn)", "Debug(name(Nn))", 'Debug(name = "Nn")', 'Debug(name("Nn"))',
                                 "Debug(rename = Nn)", "Debug(rename(Nn))", 'Debug(rename = "Nn")']):
            for k, ksp in enumerate(["Debug = kk", 'Debug = "kk"', "Debug(name = kk)", "Debug(name(kk))", 'Debug(name = "kk")', "Debug(rename = kk)", 'Debug(rename("kk"))']):
                if tier == "quick" and (j + k + grp) % 2:
                    continue
                if grp and tier == "quick" and (j * 7 + k) % 3 == 2:
                    continue
                tsp2, ksp2 = tsp.replace("Nn", tnm), ksp.replace("kk", knm)
                isp = (flag_forms("Debug") + ["Debug = false"])[(j + k) % 4]
                fs = [Field("a", "T0", attrs=[ksp2], debug={"key": knm}), Field("b", "T1", attrs=[isp], debug={"ignore": True}), Field("c", "T0", debug={})]
                add(Program(c.pid(), "struct", "S", [Variant(None, "named", fs)], [tsp2], generics=["T0", "T1"], inst={"T0": "u8", "T1": "u8"}, focus={"Debug"},
                            note="C14 Debug type=`%s` key=`%s` ignore=`%s`" % (tsp2, ksp2, isp), debug={"name": tnm, "named_field": None}))
    for j, (nsp, nv) in enumerate([("name = false", False), ("name(false)", False), ("rename = false", False), ("name = true", True), ("name(true)", True)]):
        for k, (fsp, fv) in enumerate([("named_field = true", True), ("named_field(true)", True), ("named_field = false", False), ("named_field(false)", False)]):
            # (nameless + named style is the map form: inside Verus through the hoisting transform; both orders of the two parameters)
            for order in ((0, 1) if (nv is False and fv is True) else ((j + k) % 2,)):
                meta = "Debug(%s)" % ", ".join([nsp, fsp] if order else [fsp, nsp])
                fs = [Field(None, "T0", debug={}), Field(None, "T0", debug={})]
                add(Program(c.pid(), "struct", "S", [Variant(None, "tuple", fs)], [meta], generics=["T0"], inst={"T0": "u8"}, focus={"Debug"},
                            note="C14 Debug `%s`" % meta, debug={"name": "default" if nv else False, "named_field": fv}))
    # variant level name forms in an enum
    for j, vsp in enumerate(["Debug = Vv", 'Debug = "Vv"', "Debug(name = Vv)", "Debug(name(Vv))", "Debug(rename = Vv)", 'Debug(rename("Vv"))',
                             "Debug = r#loop", 'Debug = "r#loop"', "Debug(name = r#loop)", "Debug(name(r#loop))", 'Debug(rename("r#loop"))']):
        for tsp, tn in (("Debug", "default"), ("Debug(name = true)", True), ("Debug(name(true))", True), ("Debug(rename = true)", True), ("Debug(rename(true))", True)):
            if "rename" in tsp and j % 3 != 1:
                continue
            vn = "r#loop" if "r#loop" in vsp else "Vv"
            wn = "r#mod" if vn == "r#loop" else "Ww"
            if vn == "r#loop" and tn is True and tsp.endswith("(true))"):
                continue
            vs = [Variant("V0", "unit", [], attrs=[vsp], debug={"name": vn}), Variant("V1", "tuple", [Field(None, "T0", debug={})], attrs=[vsp.replace(vn, wn)], debug={"name": wn}),
                  Variant("V2", "named", [Field("a", "T0", debug={})], debug={"name": True})]
            add(Program(c.pid(), "enum", "E", vs, [tsp], generics=["T0"], inst={"T0": "u8"}, focus={"Debug"},
                        note="C14 Debug variant=`%s` type=`%s`" % (vsp, tsp), debug={"name": tn, "named_field": None}))
    return out


# ---------------------------------------------------------------------------------
# C15: every trait's contract (built from its own attributes only) under adversarial
# attributes of all the other traits on the same fields
def c15_structured():
    """each field carries an attribute of exactly ONE trait (every carrier spelling in turn); every
    other trait must treat that field as plain.  All traits are under contract at once."""
    out = []
    singles = [
        ("eq", "PartialEq(ignore)", {"ignore": True}), ("eq", "Eq(ignore)", {"ignore": True}), ("eq", "Eq = false", {"ignore": True}),
        ("eq", "Eq(method = crate::m::eq_a)", {"method": "crate::m::eq_a"}), ("eq", "PartialEq(method(crate::m::eq_b))", {"method": "crate::m::eq_b"}),
        ("ord", "Ord(ignore)", {"ignore": True}), ("ord", "PartialOrd(ignore)", {"ignore": True}), ("ord", "PartialOrd = false", {"ignore": True}),
        ("ord", "Ord(method = crate::m::cmp_a)", {"method": "crate::m::cmp_a"}), ("ord", "PartialOrd(method(crate::m::cmp_b))", {"method": "crate::m::cmp_b"}),
        ("ord", "Ord(rank = -3)", {"rank": -3}), ("ord", 'PartialOrd(rank("9"))', {"rank": 9}),
        ("hash", "Hash(ignore)", {"ignore": True}), ("hash", "Hash = false", {"ignore": True}), ("hash", "Hash(method = crate::m::hash_a)", {"method": "crate::m::hash_a"}),
        ("clone", "Clone(method = crate::m::clone_a)", {"method": "crate::m::clone_a"}),
        ("debug", "Debug(ignore)", {"ignore": True}), ("debug", "Debug = false", {"ignore": True}), ("debug", "Debug(name = zz)", {"key": "zz"}),
        ("default", "Default = 9", {"src": "9", "expected": "9u8", "verus": True}),
    ]
    k = 0
    traits = ["Debug", "PartialEq", "Eq", "PartialOrd", "Ord", "Hash", "Clone", "Default"]
    for start in range(0, len(singles)):
        for shape in ("named", "tuple"):
            grp = singles[start:start + 1]
            if shape == "tuple":
                grp = [g for g in grp if not (g[0] == "debug" and "key" in g[2])]
            fs = []
            for i, (group, attr, sem) in enumerate(grp):
                full = {"eq": {}, "ord": {}, "hash": {}, "clone": {}, "debug": {"ignore": False, "key": None, "method": None},
                        "default": {"src": None, "expected": "0u8", "verus": True}, "into": {"marks": {}}}
                full[group] = dict(full[group], **sem)
                fs.append(Field(NAMES[i] if shape == "named" else None, "u8", attrs=[attr], **full))
            fs.append(Field(NAMES[len(grp)] if shape == "named" else None, "u8", eq={}, ord={}, hash={}, clone={},
                            debug={"ignore": False, "key": None, "method": None}, default={"src": None, "expected": "0u8", "verus": True}, into={"marks": {}}))
            k += 1
            tr = traits[k % len(traits):] + traits[:k % len(traits)]
            if not grp:
                continue
            for kind in (("struct", "enum") if k % 2 else ("enum", "struct"))[:1 if k % 3 else 2]:
                vs = [Variant(None if kind == "struct" else "V0", shape, copy.deepcopy(fs), attrs=["Default"] if kind == "enum" else [],
                              **({"default": {"marked": True}, "debug": {"name": True, "named_field": None}} if kind == "enum" else {}))]
                if kind == "enum":
                    vs.append(Variant("V1", "unit", [], debug={"name": True, "named_field": None}))
                P = Program("ps%03d%s" % (k, kind[0]), kind, "S" if kind == "struct" else "E", vs, tr,
                            focus={"Debug", "PartialEq", "PartialOrd", "Ord", "Hash", "Clone", "Default"},
                            note="C15 structured %s %s: one single-trait attribute per field %s" % (kind, shape, [g[1] for g in grp]),
                            ord={"mode": "both"}, clone={"copy": False}, default={"new": False}, debug={"name": "default", "named_field": None})
                P.tags["prop"] = "C15"
                out.append(P)
    return out


def c15_packed():
    """packed structs with an address-sensitive custom method, with and without Copy educed next to
    PartialEq: the generated eq must hand the method the fields' own storage either way"""
    out = []
    for k, traits in enumerate((["PartialEq"], ["PartialEq", "Clone", "Copy"], ["Clone", "Copy", "PartialEq"], ["PartialEq", "Clone"])):
        for shape in ("named", "tuple"):
            fs = [Field("a" if shape == "named" else None, "u8", attrs=["PartialEq(method = crate::m::eq_addr)"], eq={"method": "crate::m::eq_addr"}, clone={}),
                  Field("b" if shape == "named" else None, "u8", eq={}, clone={})]
            P = Program("pk%d%s" % (k, shape[0]), "struct", "S", [Variant(None, shape, fs)], traits, focus={"PartialEq"}, repr_="packed",
                        note="C15 packed struct %s with an address-sensitive eq method, traits=%s" % (shape, traits), clone={"copy": "Copy" in traits})
            P.tags["prop"] = "C15"
            P.tags["no_verus"] = "address-sensitive method: decided by Kani (aliased and distinct operands)"
            out.append(P)
    return out


def c15_deref():
    """Deref and DerefMut educed next to each other and next to other traits, their markers on
    DIFFERENT same-typed fields that also carry another trait's attribute: each impl follows its own marker"""
    out = []
    k = 0
    others = [(["PartialEq", "Hash"], "eq", "PartialEq(ignore)", {"ignore": True}), (["Debug", "Clone"], "debug", "Debug(ignore)", {"ignore": True, "key": None, "method": None}),
              (["Hash"], "hash", "Hash(method = crate::m::hash_a)", {"method": "crate::m::hash_a"}), (["PartialEq", "PartialOrd"], "ord", "PartialOrd(rank = 3)", {"rank": 3}),
              (["Clone"], "clone", "Clone(method = crate::m::clone_b)", {"method": "crate::m::clone_b"})]
    for oi, (otr, grp, attr, sem) in enumerate(others):
        for shape in ("named", "tuple"):
            for (dm, dmm) in ((0, 1), (1, 0), (2, 0), (1, 2)):
                k += 1
                if (k + oi) % 2:
                    continue
                fs = []
                for i in range(3):
                    full = {"eq": {}, "ord": {}, "hash": {}, "clone": {}, "debug": {"ignore": False, "key": None, "method": None}, "into": {"marks": {}},
                            "deref": {"mark": i == dm}, "deref_mut": {"mark": i == dmm}}
                    attrs = []
                    if i in (dm, dmm):
                        full[grp] = dict(sem)
                        a = attr
                        if grp == "ord":       # ranks must be distinct
                            full[grp]["rank"] = 3 + 2 * i
                            a = "PartialOrd(rank = %d)" % (3 + 2 * i)
                        attrs.append(a)
                    if i == dm:
                        attrs.insert(k % 2 * len(attrs), "Deref")
                    if i == dmm:
                        attrs.insert((k // 2) % 2 * len(attrs), "DerefMut")
                    f = Field(NAMES[i] if shape == "named" else None, "u8", attrs=attrs, **full)
                    if len(attrs) > 1 and k % 3 == 0:
                        f.sem["_split_attrs"] = True
                    fs.append(f)
                dd = [["Deref", "DerefMut"], ["DerefMut", "Deref"]][k % 2]
                traits = (dd + otr) if k % 4 < 2 else (otr[:1] + dd + otr[1:])
                kind = "struct" if k % 3 else "enum"
                vs = [Variant(None if kind == "struct" else "V0", shape, fs, **({"debug": {"name": True, "named_field": None}} if kind == "enum" else {}))]
                if kind == "enum":
                    fs2 = copy.deepcopy(fs[:2])
                    for f2 in fs2:
                        f2.attrs = [a for a in f2.attrs if a not in ("Deref", "DerefMut")]
                    fs2[0].sem["deref"] = {"mark": False}; fs2[0].sem["deref_mut"] = {"mark": True}; fs2[0].attrs.append("DerefMut")
                    fs2[1].sem["deref"] = {"mark": True}; fs2[1].sem["deref_mut"] = {"mark": False}; fs2[1].attrs.insert(0, "Deref")
                    vs.append(Variant("V1", "tuple" if shape == "named" else "named", [Field(NAMES[i] if shape != "named" else None, f2.ty, attrs=f2.attrs, **f2.sem) for i, f2 in enumerate(fs2)],
                                      debug={"name": True, "named_field": None}))
                P = Program("pd%03d" % k, kind, "S" if kind == "struct" else "E", vs, traits, focus=set(traits),
                            note="C15 Deref/DerefMut markers on different fields next to %s, traits=%s" % (attr, traits),
                            ord={"mode": "po"}, clone={"copy": False}, default={"new": False}, debug={"name": "default", "named_field": None})
                P.tags["prop"] = "C15"
                out.append(P)
    return out


def add_hash_twin(P):
    """C15 for Hash, whose contract leaves the variant tag's encoding open: the same type educing Hash ALONE (same Hash
    attributes) must feed the same data.  Only for non-generic types whose fields are Copy."""
    if "Hash" not in P.focus or P.generics or P.kind == "union":
        return P
    Q = copy.deepcopy(P)
    Q.tags.pop("frozen_src", None)
    Q.name = "Tw9"
    hm = [t for t in P.traits if re.match(r"Hash\b", t)]
    Q.traits = hm or ["Hash"]
    Q.type_attrs = None
    Q.extra_derive = []
    for v in Q.variants:
        v.attrs = [a for a in (v.attrs or []) if re.match(r"Hash\b", a)]
        for f in v.fields:
            f.attrs = [a for a in f.attrs if re.match(r"Hash\b", a)]
            f.sem.pop("_split_attrs", None)
    arms = []
    for v, w in zip(P.variants, Q.variants):
        arms.append("%s => %s," % (P.pat(v, "x"), Q.build(w, ["*x%d" % f.idx for f in v.fields])))
    P.tags["hash_twin"] = {"typedef": Q.typedef(True),
                           "conv": "pub fn to_twin(x: &TI) -> Tw9 {\n    match x {\n        %s\n    }\n}\n" % "\n        ".join(arms)}
    return P


def c15_into_deref():
    """Into next to Deref: an undesignated Into target still resolves to the unique field of that type, wherever the Deref marker sits"""
    out = []
    full = lambda **kw: dict({"eq": {}, "ord": {}, "hash": {}, "clone": {}, "debug": {"ignore": False, "key": None, "method": None}, "into": {"marks": {}}, "deref": {}, "deref_mut": {}}, **kw)
    for k, shape in enumerate(("named", "tuple")):
        fs = [Field("raw" if shape == "named" else None, "u8", attrs=["Deref"], **full(deref={"mark": True})), Field("scaled" if shape == "named" else None, "u16", **full())]
        P = Program("pi%03d" % k, "struct", "S", [Variant(None, shape, fs)], ["Deref", "Into(u16)"] if k else ["Into(u16)", "Deref"], focus={"Deref", "Into"},
                    note="C15 Into(u16) next to Deref on another field, struct %s" % shape, into={"targets": ["u16"]})
        P.tags["prop"] = "C15"
        out.append(P)
    vs = [Variant("V0", "named", [Field("raw", "u8", attrs=["Deref"], **full(deref={"mark": True})), Field("scaled", "u16", **full())]),
          Variant("V1", "tuple", [Field(None, "u16", **full()), Field(None, "u8", attrs=["Deref"], **full(deref={"mark": True}))])]
    P = Program("pi009", "enum", "E", vs, ["Deref", "Into(u16)"], focus={"Deref", "Into"}, note="C15 Into(u16) next to Deref on another field, enum", into={"targets": ["u16"]})
    P.tags["prop"] = "C15"
    out.append(P)
    return out


def c15_unit_enums():
    """field-less enums with explicit discriminants educing Hash next to Copy / Clone / the comparison traits: the
    Hash-only twin feeds the same data"""
    out = []
    k = 0
    for ds in ([10, 3, None], [None, 7, None, 2], [-4, None, 100]):
        for traits in (["Hash", "Clone", "Copy"], ["Copy", "Clone", "PartialEq", "Eq", "Hash"], ["Hash", "PartialEq", "PartialOrd"], ["Debug", "Hash", "Clone"]):
            k += 1
            vs = [Variant("V%d" % i, "unit", [], discr=d, debug={"name": True, "named_field": None}) for i, d in enumerate(ds)]
            focus = {t for t in traits if t not in ("Eq", "Copy")}
            P = Program("pu%03d" % k, "enum", "E", vs, traits, focus=focus, repr_="i16" if k % 2 else None,
                        note="C15 field-less enum with explicit discriminants %s, traits=%s" % (ds, traits),
                        ord={"mode": "po"}, clone={"copy": "Copy" in traits}, default={"new": False}, debug={"name": "default", "named_field": None})
            P.tags["prop"] = "C15"
            out.append(P)
    return out


def c15(tier, seed):
    rnd = random.Random(1000 + seed)
    c = Counter()
    out = c15_structured() + c15_packed() + c15_deref() + c15_unit_enums() + c15_into_deref()
    ALL = ["Debug", "PartialEq", "Eq", "PartialOrd", "Ord", "Hash", "Clone", "Default", "Into(u16)"]
    nprog = 24 if tier == "quick" else 360
    for pi in range(nprog):
        kind = "struct" if pi % 3 else "enum"
        # which other traits are present: all / random subsets / reordered
        if pi % 4 == 0:
            traits = list(ALL)
        else:
            traits = [t for t in ALL if rnd.random() < 0.7]
            for need, dep in (("Eq", "PartialEq"), ("Ord", "PartialOrd"), ("Ord", "Eq"), ("PartialOrd", "PartialEq")):
                if need in traits and dep not in traits:
                    traits.append(dep)
            if "Eq" in traits and "PartialEq" not in traits:
                traits.append("PartialEq")
            if not traits:
                traits = ["PartialEq"]
            rnd.shuffle(traits)
        has = lambda t: any(x.split("(")[0] == t for x in traits)
        with_copy = has("Clone") and pi % 2 == 1
        if with_copy:
            traits.insert(traits.index("Clone") + (pi % 2), "Copy")
        md = "both" if has("Ord") else "po"
        nv = 1 if kind == "struct" else rnd.choice((2, 3))
        variants = []
        for vi in range(nv):
            shape = rnd.choice(("named", "tuple"))
            n = rnd.choice((2, 3)) if kind == "struct" else rnd.choice((1, 2, 3))
            fs = []
            used_ranks = set()
            into_done = False
            for i in range(n):
                # field type: u8 (methods allowed) / u16 / bool ; the first field can always feed Into(u16)
                ty = rnd.choice(["u8", "u8", "u16", "bool"]) if i else rnd.choice(["u8", "u16"])
                sem, attrs = {}, []
                def pick():
                    return rnd.choice("nnimb") if ty == "u8" else rnd.choice("nni")
                if has("PartialEq"):
                    a = pick()
                    sem["eq"] = {"ignore": a in "ib", "method": EQ_METHODS[i % 2] if a in "mb" else None}
                    sp = spell_field("Eq" if (has("Eq") and rnd.random() < 0.3) else "PartialEq", sem["eq"], rnd.randrange(8))
                    if sp: attrs.append(sp)
                if has("PartialOrd"):
                    a = pick()
                    r = None
                    if rnd.random() < 0.4:
                        r = rnd.choice([x for x in (-5, -1, 0, 2, 9, 40) if x not in used_ranks])
                        used_ranks.add(r)
                    meths = ["crate::m::pcmp_a", "crate::m::pcmp_b"] if md == "po" else ["crate::m::cmp_a", "crate::m::cmp_b"]
                    sem["ord"] = {"ignore": a in "ib", "method": meths[i % 2] if a in "mb" else None, "rank": r}
                    sp = spell_field("Ord" if (md == "both" and rnd.random() < 0.5) else "PartialOrd", sem["ord"], rnd.randrange(8))
                    if sp: attrs.append(sp)
                if has("Hash"):
                    a = pick()
                    sem["hash"] = {"ignore": a in "ib", "method": HASH_METHODS[i % 2] if a in "mb" else None}
                    sp = spell_field("Hash", sem["hash"], rnd.randrange(8))
                    if sp: attrs.append(sp)
                if has("Clone"):
                    a = "m" if (ty == "u8" and rnd.random() < 0.3 and not (with_copy and kind == "struct")) else "n"
                    sem["clone"] = {"method": CLONE_METHODS[i % 2] if a == "m" else None}
                    if a == "m": attrs.append("Clone(%s)" % spell_param("method", sem["clone"]["method"], rnd.randrange(4)))
                if has("Debug"):
                    a = rnd.choice("nnik") if shape == "named" else rnd.choice("nni")
                    f0 = dbg_field("x", ty, a, rnd.randrange(12), shape == "named")
                    sem["debug"] = f0.sem["debug"]; attrs += f0.attrs
                if has("Default") and (kind == "struct" or vi == 0):
                    if rnd.random() < 0.5:
                        lit = {"u8": ("7", "7u8"), "u16": ("300", "300u16"), "bool": ("true", "true")}[ty]
                        sem["default"] = {"src": lit[0], "expected": lit[1], "verus": True}
                        attrs.append(["Default = %s", "Default(expression = %s)", "Default(expr(%s))"][rnd.randrange(3)] % lit[0])
                    else:
                        sem["default"] = {"src": None, "expected": {"u8": "0u8", "u16": "0u16", "bool": "false"}[ty], "verus": True}
                elif has("Default"):
                    sem["default"] = {"src": None, "expected": {"u8": "0u8", "u16": "0u16", "bool": "false"}[ty], "verus": True}
                sem["into"] = {"marks": {}}
                fs.append(Field(NAMES[i] if shape == "named" else None, ty, attrs=attrs, **sem))
            if has("Into"):
                # designate one u8/u16 field per variant for Into(u16)
                cands = [f for f in fs if f.ty in ("u8", "u16")]
                if not cands:
                    fs[0].ty = "u8"; cands = [fs[0]]
                    for g in ("eq", "ord", "hash", "clone"):
                        pass
                d = rnd.choice(cands)
                m = "crate::m::into_a" if (d.ty == "u8" and rnd.random() < 0.4) else None
                if len(fs) > 1 or m or rnd.random() < 0.5:
                    d.attrs.append("Into(u16, %s)" % spell_param("method", m, rnd.randrange(4)) if m else "Into(u16)")
                    d.sem["into"] = {"marks": {"u16": m}}
            for f in fs:
                if len(f.attrs) > 1 and rnd.random() < 0.3:
                    f.sem["_split_attrs"] = True
            vattrs, vsem = [], {}
            if kind == "enum":
                if has("Default") and vi == 0:
                    vattrs.append("Default"); vsem["default"] = {"marked": True}
                vsem["debug"] = {"name": True, "named_field": None}
            variants.append(Variant(None if kind == "struct" else "V%d" % vi, shape, fs, attrs=vattrs, **vsem))
        focus = {t.split("(")[0] for t in traits} - {"Eq"}
        P = Program(c.pid(), kind, "S" if kind == "struct" else "E", variants, traits, focus=focus,
                    note="C15 %s traits=%s" % (kind, traits), ord={"mode": md}, clone={"copy": with_copy}, default={"new": False},
                    into={"targets": ["u16"]} if has("Into") else {}, debug={"name": "default", "named_field": None})
        P.tags["prop"] = "C15"
        if pi % 5 == 1 and len(traits) > 1:
            P.type_attrs = [[t] for t in traits]
        out.append(P)
    return out


# ---------------------------------------------------------------------------------
# "wide" members of the quick families: more fields / variants than the exhaustive part
# (positions >= 3, variant indexes >= 4), fixed and seed-independent
def _wide_assigns(n, alphabet):
    """n rotations of the alphabet so that every position sees every letter"""
    L = len(alphabet)
    return [tuple(alphabet[(i + r) % L] for i in range(n)) for r in range(L)]


def wide(prop):
    out = []
    k = [0]

    def pid():
        k[0] += 1
        return "pw%03d" % k[0]
    LONG = ["a", "b", "c", "d", "e", "f", "g"]
    # a field that is ignored AND carries a method: ignore wins, the method must never run
    BOTH = [("b",), ("n", "b"), ("b", "n"), ("n", "b", "n"), ("m", "b", "i"), ("b", "b"), ("n", "n", "b")]
    # exotic generics (lifetime + const generic + where clause, reference and array fields): Kani only
    EXO_GEN = ["'a", "T0: 'a", "const N: usize"]
    EXO_INST = {"T0": "u8", "N": "2", "'a": "'static"}
    def exo(P):
        P.generics = list(EXO_GEN); P.inst = dict(EXO_INST); P.where = "T0: Copy"
        P.tags["no_verus"] = "lifetime / const generic / reference and array fields: outside vstd's specs, decided by Kani on the instantiation <'static, u8, 2>"
        return P
    def exo_fields(group, sems, shape):
        tys = ["&'a T0", "[u8; N]", "T0", "u8"]
        return [Field(LONG[i] if shape == "named" else None, tys[i], attrs=([a] if a else []), **{group: sm}) for i, (a, sm) in enumerate(sems)]
    # two-digit tuple indexes
    def wide_tuple(group, carrier, meths, n=12):
        fs = []
        for i in range(n):
            a = {9: "i", 10: "m", 3: "i", 11: "n"}.get(i, "n")
            sem = {"ignore": a == "i", "method": meths[i % 2] if a == "m" else None}
            if group == "ord":
                sem["rank"] = None
            sp = spell_field(carrier, sem, i)
            fs.append(Field(None, "u8", attrs=[sp] if sp else [], **{group: sem}))
        return fs
    def colliding(group, plain, meth_sem, meth_attr):
        """enum with named variants whose same-typed fields are called x, _x, __x, _s_x, _o_x, v_x"""
        vs = []
        for vi, names in enumerate((["x", "_x"], ["_x", "__x", "x"], ["_s_x", "_o_x", "v_x", "x"])):
            fs = []
            for j, nm in enumerate(names):
                if j == 1 and vi != 1:
                    fs.append(Field(nm, "u8", attrs=[meth_attr], **{group: dict(meth_sem)}))
                else:
                    fs.append(Field(nm, "u8", **{group: dict(plain)}))
            vs.append(Variant("V%d" % vi, "named", fs))
        return vs
    if prop == "C02":
        out.append(Program(pid(), "enum", "E", colliding("eq", {}, {"method": "crate::m::eq_a"}, "PartialEq(method = crate::m::eq_a)"), ["PartialEq"], focus={"PartialEq"},
                           note="named variants with same-typed fields x/_x/__x/_s_x/_o_x/v_x"))
    if prop == "C03":
        for md in ("both", "po"):
            car = "Ord" if md == "both" else "PartialOrd"
            m = "crate::m::cmp_a" if md == "both" else "crate::m::pcmp_a"
            out.append(ord_program(pid(), "enum", "E", colliding("ord", {}, {"method": m}, "%s(method = %s)" % (car, m)), md, [], 0,
                                   "named variants with same-typed fields x/_x/__x/_s_x/_o_x/v_x mode=%s" % md))
    if prop == "C05":
        out.append(Program(pid(), "enum", "E", colliding("hash", {}, {"method": "crate::m::hash_a"}, "Hash(method = crate::m::hash_a)"), ["Hash"], focus={"Hash"},
                           note="named variants with same-typed fields x/_x/__x/_s_x/_o_x/v_x"))
    if prop == "C07":
        generics = []
        vs = colliding("clone", {}, {"method": "crate::m::clone_a"}, "Clone(method = crate::m::clone_a)")
        out.append(clone_program(pid(), "enum", "E", vs, [], False, "named variants with same-typed fields x/_x/__x/_s_x/_o_x/v_x", 1))
    if prop == "C02":
        for shape in ("named", "tuple"):
            fs = exo_fields("eq", [(None, {}), ("PartialEq(ignore)", {"ignore": True}), (None, {}), ("PartialEq(method = crate::m::eq_a)", {"method": "crate::m::eq_a"})], shape)
            out.append(exo(Program(pid(), "struct", "S", [Variant(None, shape, fs)], ["PartialEq"], focus={"PartialEq"}, note="exotic generics struct %s" % shape)))
        vs = [Variant("V0", "named", exo_fields("eq", [(None, {}), (None, {}), ("PartialEq(ignore)", {"ignore": True}), (None, {})], "named")),
              Variant("V1", "tuple", exo_fields("eq", [("PartialEq(ignore)", {"ignore": True}), (None, {}), (None, {}), ("PartialEq(method = crate::m::eq_b)", {"method": "crate::m::eq_b"})], "tuple"))]
        out.append(exo(Program(pid(), "enum", "E", vs, ["PartialEq"], focus={"PartialEq"}, note="exotic generics enum")))
        out.append(Program(pid(), "struct", "S", [Variant(None, "tuple", wide_tuple("eq", "PartialEq", EQ_METHODS))], ["PartialEq"], focus={"PartialEq"}, note="12-field tuple struct (two-digit indexes)"))
        out.append(Program(pid(), "enum", "E", [Variant("V0", "unit", []), Variant("V1", "tuple", wide_tuple("eq", "PartialEq", EQ_METHODS, 11))], ["PartialEq"], focus={"PartialEq"}, note="11-field tuple variant"))
    if prop == "C03":
        for md in ("both", "po"):
            car = "Ord" if md == "both" else "PartialOrd"
            meths = ["crate::m::cmp_a", "crate::m::cmp_b"] if md == "both" else ["crate::m::pcmp_a", "crate::m::pcmp_b"]
            for shape in ("named", "tuple"):
                fs = exo_fields("ord", [(None, {}), ("%s(ignore)" % car, {"ignore": True}), ("%s(rank = -1)" % car, {"rank": -1}), ("%s(method = %s)" % (car, meths[0]), {"method": meths[0]})], shape)
                P = ord_program(pid(), "struct", "S", [Variant(None, shape, fs)], md, [], 0, "exotic generics struct %s mode=%s" % (shape, md))
                out.append(exo(P))
            P = ord_program(pid(), "struct", "S", [Variant(None, "tuple", wide_tuple("ord", car, meths))], md, [], 0, "12-field tuple struct mode=%s" % md)
            out.append(P)
        # Ord educed alone, PartialOrd / PartialEq / Eq derived by std: only Ord::cmp is under contract
        for shape in ("named", "tuple"):
            fs = [Field(LONG[0] if shape == "named" else None, "u8", attrs=["Ord(rank = 2)"], ord={"rank": 2}), Field(LONG[1] if shape == "named" else None, "u16", ord={}),
                  Field(LONG[2] if shape == "named" else None, "u8", attrs=["Ord(ignore)"], ord={"ignore": True})]
            P = Program(pid(), "struct", "S", [Variant(None, shape, fs)], ["Ord"], focus={"Ord"}, extra_derive=["PartialEq", "Eq", "PartialOrd"],
                        note="Ord educed alone (std-derived PartialOrd) struct %s" % shape, ord={"mode": "ord_only"})
            P.tags["no_verus"] = "std-derived companion impls are not part of educe's expansion; Kani decides Ord::cmp"
            out.append(P)
    if prop == "C05":
        for shape in ("named", "tuple"):
            fs = exo_fields("hash", [(None, {}), ("Hash(ignore)", {"ignore": True}), (None, {}), ("Hash(method = crate::m::hash_a)", {"method": "crate::m::hash_a"})], shape)
            out.append(exo(Program(pid(), "struct", "S", [Variant(None, shape, fs)], ["Hash"], focus={"Hash"}, note="exotic generics struct %s" % shape)))
        out.append(Program(pid(), "struct", "S", [Variant(None, "tuple", wide_tuple("hash", "Hash", HASH_METHODS))], ["Hash"], focus={"Hash"}, note="12-field tuple struct (two-digit indexes)"))
    if prop == "C07":
        for shape in ("named", "tuple"):
            fs = exo_fields("clone", [(None, {}), (None, {}), (None, {}), ("Clone(method = crate::m::clone_a)", {"method": "crate::m::clone_a"})], shape)
            P = exo(clone_program(pid(), "struct", "S", [Variant(None, shape, fs)], [], False, "exotic generics struct %s" % shape, 1))
            out.append(P)
    if prop == "C02":
        for assign in BOTH:
            for shape in ("named", "tuple"):
                fields, generics = eq_fields(shape, assign, k[0], "PartialEq", LONG)
                out.append(mk_struct(pid(), shape, fields, ["PartialEq"], {"PartialEq"}, generics, note="ignore+method struct %s eq=%s" % (shape, "".join(assign))))
        for assign in BOTH[1:5]:
            generics = []
            vs = []
            for vi, kind in enumerate(("named", "tuple")):
                fs, g2 = eq_fields(kind, assign, k[0] + vi, "PartialEq", LONG)
                for f in fs:
                    if f.ty.startswith("T"):
                        f.ty = "T0"
                vs.append(Variant("V%d" % vi, kind, fs))
            out.append(Program(pid(), "enum", "E", vs, ["PartialEq"], generics=["T0"] if any(f.ty == "T0" for v in vs for f in v.fields) else [], inst={"T0": "u8"},
                               focus={"PartialEq"}, note="ignore+method enum eq=%s" % "".join(assign)))
    if prop == "C03":
        for assign in BOTH:
            for shape in ("named", "tuple"):
                for md in ("both", "po"):
                    generics = []
                    fields = [ord_field(LONG[i] if shape == "named" else None, a, None, md, "PartialOrd" if md == "po" else "Ord", k[0] + i, generics, i) for i, a in enumerate(assign)]
                    out.append(ord_program(pid(), "struct", "S", [Variant(None, shape, fields)], md, generics, k[0], "ignore+method struct %s ord=%s mode=%s" % (shape, "".join(assign), md)))
        for assign in BOTH[1:5]:
            for md in ("both", "po"):
                vs = []
                for vi, kind in enumerate(("named", "tuple")):
                    g2 = []
                    fs = [ord_field(LONG[i] if kind == "named" else None, a, None, md, "PartialOrd" if md == "po" else "Ord", k[0] + i, g2, i) for i, a in enumerate(assign)]
                    for f in fs:
                        if f.ty.startswith("T"):
                            f.ty = "T0"
                    vs.append(Variant("V%d" % vi, kind, fs))
                gen = ["T0"] if any(f.ty == "T0" for v in vs for f in v.fields) else []
                out.append(ord_program(pid(), "enum", "E", vs, md, gen, k[0], "ignore+method enum ord=%s mode=%s" % ("".join(assign), md)))
    if prop == "C05":
        for assign in BOTH:
            for shape in ("named", "tuple"):
                fields = [hash_field(LONG[i] if shape == "named" else None, a, k[0] + i, i, k[0]) for i, a in enumerate(assign)]
                out.append(Program(pid(), "struct", "S", [Variant(None, shape, fields)], ["Hash"], focus={"Hash"}, note="ignore+method struct %s hash=%s" % (shape, "".join(assign))))
        for assign in BOTH[1:5]:
            vs = [Variant("V%d" % vi, kind, [hash_field(LONG[i] if kind == "named" else None, a, k[0] + i + vi, i, 0) for i, a in enumerate(assign)]) for vi, kind in enumerate(("named", "tuple"))]
            out.append(Program(pid(), "enum", "E", vs, ["Hash"], focus={"Hash"}, note="ignore+method enum hash=%s" % "".join(assign)))
    if prop == "C02":
        for n in (4, 5, 6):
            for shape in ("named", "tuple"):
                for assign in _wide_assigns(n, "nim"):
                    fields, generics = eq_fields(shape, assign, k[0], "PartialEq", LONG)
                    out.append(mk_struct(pid(), shape, fields, ["PartialEq"], {"PartialEq"}, generics, note="wide struct %s eq=%s" % (shape, "".join(assign))))
        for nv in (5, 7):
            generics, variants = ["T0", "T1"], []
            for vi in range(nv):
                kind = ["tuple", "named", "unit"][vi % 3]
                m = 0 if kind == "unit" else 1 + vi % 4
                fs = []
                for j in range(m):
                    a = "nim"[(vi + j) % 3]
                    sem = {"ignore": a == "i", "method": EQ_METHODS[j % 2] if a == "m" else None}
                    sp = spell_field("PartialEq", sem, vi + j)
                    fs.append(Field(LONG[j] if kind == "named" else None, "u8" if a == "m" else "T%d" % (j % 2), attrs=[sp] if sp else [], eq=sem))
                variants.append(Variant("V%d" % vi, kind, fs))
            out.append(Program(pid(), "enum", "E", variants, ["PartialEq"], generics=generics, inst=inst_for(generics), focus={"PartialEq"}, note="wide enum %d variants" % nv))
    if prop == "C03":
        for n in (4, 5):
            for shape in ("named", "tuple"):
                for ri, assign in enumerate(_wide_assigns(n, "nim")):
                    for md in ("both", "po"):
                        carrier = "PartialOrd" if md == "po" else "Ord"
                        generics = []
                        perm = list(range(n)); perm = perm[ri + 1:] + perm[:ri + 1]
                        ranks = rank_schemes(n, tuple(perm), 0) if ri % 2 == 0 else [None] * n
                        fields = [ord_field(LONG[i] if shape == "named" else None, a, ranks[i] if i < len(ranks) else None, md, carrier, k[0] + i, generics, i)
                                  for i, a in enumerate(assign)]
                        if len({f.s("ord", "rank") for f in fields if f.s("ord", "rank") is not None}) != len([f for f in fields if f.s("ord", "rank") is not None]):
                            continue
                        out.append(ord_program(pid(), "struct", "S", [Variant(None, shape, fields)], md, generics, k[0], "wide struct %s ord=%s ranks=%s mode=%s" % (shape, "".join(assign), ranks, md)))
        for nv in (5, 6):
            for md in ("both", "po"):
                generics, variants = [], []
                for vi in range(nv):
                    kind = ["tuple", "named", "unit"][vi % 3]
                    m = 0 if kind == "unit" else 1 + vi % 3
                    fs = []
                    for j in range(m):
                        g2 = []
                        f = ord_field(LONG[j] if kind == "named" else None, "nim"[(vi + j) % 3], None, md, "PartialOrd" if md == "po" else "Ord", vi + j, g2, j)
                        if g2:
                            f.ty = "T%d" % (j % 2)
                            if f.ty not in generics: generics.append(f.ty)
                        fs.append(f)
                    variants.append(Variant("V%d" % vi, kind, fs))
                generics.sort()
                out.append(ord_program(pid(), "enum", "E", variants, md, generics, nv, "wide enum %d variants mode=%s" % (nv, md)))
    if prop == "C05":
        # enums with explicit discriminants (mixed with implicit ones): variant tags must stay distinct
        vs = [Variant("V0", "unit", [], discr=1), Variant("V1", "unit", []), Variant("V2", "unit", [], discr=0)]
        out.append(Program(pid(), "enum", "E", vs, ["Hash"], focus={"Hash"}, note="unit enum with discriminants 1, (2), 0"))
        vs = [Variant("V0", "tuple", [hash_field(None, "n", 0, 0, 0)], discr=2), Variant("V1", "named", [hash_field("a", "n", 1, 0, 0)], discr=7),
              Variant("V2", "tuple", [hash_field(None, "n", 2, 0, 0)]), Variant("V3", "unit", [], discr=1)]
        out.append(Program(pid(), "enum", "E", vs, ["Hash"], focus={"Hash"}, repr_="u8", note="repr(u8) enum with discriminants 2, 7, (8), 1"))
        vs = [Variant("V0", "unit", [], discr=-1), Variant("V1", "tuple", [hash_field(None, "m", 1, 0, 0)]), Variant("V2", "unit", [])]
        out.append(Program(pid(), "enum", "E", vs, ["Hash"], focus={"Hash"}, repr_="i8", note="repr(i8) enum with discriminants -1, (0), (1)"))
        for n in (4, 5):
            for shape in ("named", "tuple"):
                for assign in _wide_assigns(n, "nim"):
                    fields = [hash_field(LONG[i] if shape == "named" else None, a, k[0] + i, i, k[0]) for i, a in enumerate(assign)]
                    if sum(9 if f.ty == "crate::m::K" else 5 for f in fields) > 28:
                        for f in fields:
                            if f.ty in ("crate::m::K", "u32"): f.ty = "u8"
                    out.append(Program(pid(), "struct", "S", [Variant(None, shape, fields)], ["Hash"], focus={"Hash"}, note="wide struct %s hash=%s" % (shape, "".join(assign))))
        for nv in (6, 8):
            variants = []
            for vi in range(nv):
                kind = ["tuple", "named", "unit"][vi % 3]
                m = 0 if kind == "unit" else 1 + vi % 2
                fs = [hash_field(LONG[j] if kind == "named" else None, "nim"[(vi + j) % 3], vi + j, j, 0) for j in range(m)]
                variants.append(Variant("V%d" % vi, kind, fs))
            out.append(Program(pid(), "enum", "E", variants, ["Hash"], focus={"Hash"}, note="wide enum %d variants" % nv))
    if prop == "C07":
        for n in (4, 5):
            for shape in ("named", "tuple"):
                for assign in _wide_assigns(n, "nm"):
                    generics = []
                    fields = [clone_field(LONG[i] if shape == "named" else None, a, k[0] + i, i, generics, i) for i, a in enumerate(assign)]
                    out.append(clone_program(pid(), "struct", "S", [Variant(None, shape, fields)], generics, False, "wide struct %s clone=%s" % (shape, "".join(assign)), 1))
        generics, variants = [], []
        for vi in range(6):
            kind = ["tuple", "named", "unit"][vi % 3]
            m = 0 if kind == "unit" else 1 + vi % 3
            fs = [clone_field(LONG[j] if kind == "named" else None, "nm"[(vi + j) % 2], vi + j, j, generics, j) for j in range(m)]
            variants.append(Variant("V%d" % vi, kind, fs))
        out.append(clone_program(pid(), "enum", "E", variants, generics, False, "wide enum 6 variants", 1))
    if prop == "C06":
        # custom-method fields and the nameless struct-style (debug_map) form: inside Verus through the hoisting transform
        for shape in ("named", "tuple"):
            for tn, nf in (("default", None), (False, None), ("Renamed", None), ("default", shape != "named")):
                struct_style = (shape == "named") if nf is None else nf
                for assign in (("m",), ("n", "m"), ("m", "n", "m"), ("M", "n") if struct_style else ("m", "i", "n"), ("n", "k", "m") if struct_style else ("n", "m", "m")):
                    generics = []
                    fields = []
                    for i, a in enumerate(assign):
                        f = dbg_field(LONG[i] if shape == "named" else None, "T%d" % len(generics), a, k[0] + i, struct_style)
                        if f.ty.startswith("T"):
                            generics.append(f.ty)
                        fields.append(f)
                    out.append(Program(pid(), "struct", "S", [Variant(None, shape, fields)], [dbg_type_meta(tn, nf, k[0]) or "Debug"], generics=generics,
                                       inst={g: "u8" for g in generics}, focus={"Debug"},
                                       note="method/map struct %s name=%s named_field=%s fields=%s" % (shape, tn, nf, "".join(assign)), debug={"name": tn, "named_field": nf}))
        vs = [Variant("V0", "named", [dbg_field("a", "T0", "M", 1, True), dbg_field("b", "T0", "k", 2, True), dbg_field("c", "T0", "m", 3, True)],
                      attrs=["Debug(name = false)"], debug={"name": False, "named_field": None}),
              Variant("V1", "tuple", [dbg_field(None, "T0", "M", 4, True), dbg_field(None, "T0", "n", 5, True)], attrs=["Debug(name = false, named_field = true)"],
                      debug={"name": False, "named_field": True}),
              Variant("V2", "unit", [], debug={"name": True, "named_field": None})]
        out.append(Program(pid(), "enum", "E", vs, ["Debug"], generics=["T0"], inst={"T0": "u8"}, focus={"Debug"},
                           note="nameless map-form enum variants with renamed + method fields", debug={"name": "default", "named_field": None}))
        for tn in ("default", True):
            vs = [Variant("V0", "tuple", [dbg_field(None, "T0", "n", 0, False), dbg_field(None, "T0", "m", 1, False)], debug={"name": True, "named_field": None}),
                  Variant("V1", "named", [dbg_field("a", "T0", "m", 2, True), dbg_field("b", "T0", "k", 3, True)], debug={"name": True, "named_field": None}),
                  Variant("V2", "named", [dbg_field("x", "T0", "M", 5, True)], debug={"name": "Q", "named_field": None}, attrs=["Debug(name = Q)"]),
                  Variant("V3", "unit", [], debug={"name": True, "named_field": None})]
            out.append(Program(pid(), "enum", "E", vs, [dbg_type_meta(tn, None, 0) or "Debug"], generics=["T0"], inst={"T0": "u8"}, focus={"Debug"},
                               note="method enum name=%s" % tn, debug={"name": tn, "named_field": None}))
        for assign in (("b",), ("n", "b"), ("b", "n"), ("k", "b", "n"), ("n", "n", "b")):
            generics = ["T%d" % i for i in range(len(assign))]
            fields = [dbg_field(LONG[i], generics[i], a, k[0] + i, True) for i, a in enumerate(assign)]
            out.append(Program(pid(), "struct", "S", [Variant(None, "named", fields)], ["Debug"], generics=generics, inst={g: "u8" for g in generics},
                               focus={"Debug"}, note="ignore+rename struct debug=%s" % "".join(assign), debug={"name": "default", "named_field": None}))
        for n in (4, 5):
            for shape in ("named", "tuple"):
                for assign in _wide_assigns(n, "nik" if shape == "named" else "ni"):
                    generics = ["T%d" % i for i in range(n)]
                    fields = [dbg_field(LONG[i] if shape == "named" else None, generics[i], a, k[0] + i, shape == "named") for i, a in enumerate(assign)]
                    out.append(Program(pid(), "struct", "S", [Variant(None, shape, fields)], ["Debug"], generics=generics, inst={g: "u8" for g in generics},
                                       focus={"Debug"}, note="wide struct %s debug=%s" % (shape, "".join(assign)), debug={"name": "default", "named_field": None}))
        for tn in ("default", True):
            generics, variants = ["T0", "T1"], []
            for vi in range(6):
                kind = ["tuple", "named", "unit"][vi % 3]
                m = 0 if kind == "unit" else 1 + vi % 3
                fs = [dbg_field(LONG[j] if kind == "named" else None, "T%d" % (j % 2), "nik"[(vi + j) % 3] if kind == "named" else "ni"[(vi + j) % 2], vi + j, kind == "named") for j in range(m)]
                variants.append(Variant("V%d" % vi, kind, fs, debug={"name": True, "named_field": None}))
            out.append(Program(pid(), "enum", "E", variants, [dbg_type_meta(tn, None, 0) or "Debug"], generics=generics, inst={g: "u8" for g in generics},
                               focus={"Debug"}, note="wide enum 6 variants name=%s" % tn, debug={"name": tn, "named_field": None}))
    if prop == "C09":
        # exclusive-reference designated field: Target is still the referent
        for shape in ("named", "tuple"):
            for n, dm in ((1, 0), (3, 1)):
                fs = []
                for i in range(n):
                    fs.append(Field(LONG[i] if shape == "named" else None, "&'static mut u8" if i == dm else "u8", attrs=(["Deref"] if (i == dm and n > 1) else []), deref={"mark": i == dm}))
                P = Program(pid(), "struct", "S", [Variant(None, shape, fs)], ["Deref"], focus={"Deref"}, note="&mut designated field: struct %s n=%d deref@%d" % (shape, n, dm))
                P.tags["no_verus"] = "&'static mut field: Kani on the concrete layout"
                out.append(P)
        # enums whose designated fields are references: in every variant / in some variants only (Target is the referent either way)
        for rty, muts in (("&'static u8", False), ("&'static mut u8", True)):
            for allref in (True, False):
                vs = [Variant("V0", "tuple", [Field(None, rty, deref={"mark": True}, deref_mut={"mark": True})]),
                      Variant("V1", "named", [Field("a", "u8", deref={}, deref_mut={}), Field("b", rty if allref else "u8", attrs=["Deref"] + (["DerefMut"] if muts else []), deref={"mark": True}, deref_mut={"mark": True})]),
                      Variant("V2", "tuple", [Field(None, rty, attrs=["Deref"] + (["DerefMut"] if muts else []), deref={"mark": True}, deref_mut={"mark": True}), Field(None, "u8", deref={}, deref_mut={}), Field(None, "u8", deref={}, deref_mut={})])]
                traits = ["Deref", "DerefMut"] if muts else ["Deref"]
                P = Program(pid(), "enum", "E", vs, traits, focus=set(traits), note="enum with reference designated fields (%s) in %s variants" % (rty, "all" if allref else "some"))
                P.tags["no_verus"] = "reference fields: Kani on the concrete layout"
                out.append(P)
        # smart-pointer designated fields: Target is the field's own type (Box<u8>), &*x is the Box, not what it points to
        BX = "Box<u8>"
        vs = [Variant("V0", "tuple", [Field(None, BX, deref={"mark": True}, deref_mut={"mark": True})]),
              Variant("V1", "tuple", [Field(None, "u8", deref={}, deref_mut={}), Field(None, BX, attrs=["Deref", "DerefMut"], deref={"mark": True}, deref_mut={"mark": True}), Field(None, "u8", deref={}, deref_mut={})]),
              Variant("V2", "named", [Field("a", "u8", deref={}, deref_mut={}), Field("b", BX, attrs=["DerefMut", "Deref"], deref={"mark": True}, deref_mut={"mark": True})])]
        P = Program(pid(), "enum", "E", vs, ["Deref", "DerefMut"], focus={"Deref", "DerefMut"}, note="wide: Box<u8> designated fields (enum)", deref={"target_inst": BX})
        P.tags["no_verus"] = "Box fields: Kani on the concrete layout"
        out.append(P)
        fs = [Field(None, "u8", deref={}), Field(None, "&'static Box<u8>", attrs=["Deref"], deref={"mark": True}), Field(None, "u8", deref={})]
        P = Program(pid(), "struct", "S", [Variant(None, "tuple", fs)], ["Deref"], focus={"Deref"}, note="wide: &Box<u8> designated field (struct)", deref={"target_inst": BX})
        P.tags["no_verus"] = "Box fields: Kani on the concrete layout"
        out.append(P)
        # PhantomData (and other non-target) fields declared before the designated field: positions are declaration positions
        PH = "core::marker::PhantomData<u16>"
        for shape in ("tuple", "named"):
            for lay, dm, dmm in (([PH, "u8", "u8"], 2, 2), ([PH, "u8", "u8"], 1, 2), (["u8", PH, "u8", "u8"], 3, 2), ([PH, PH, "u8", "u8", "u8"], 3, 4)):
                fs = []
                for i, t in enumerate(lay):
                    attrs = (["Deref"] if i == dm else []) + (["DerefMut"] if i == dmm else [])
                    fs.append(Field(LONG[i] if shape == "named" else None, t, attrs=attrs, deref={"mark": i == dm}, deref_mut={"mark": i == dmm}))
                P = Program(pid(), "struct", "S", [Variant(None, shape, fs)], ["Deref", "DerefMut"], focus={"Deref", "DerefMut"},
                            note="PhantomData before the designated field: struct %s %s deref@%d deref_mut@%d" % (shape, lay, dm, dmm))
                P.tags["no_verus"] = "PhantomData fields: Kani on the concrete layout"
                out.append(P)
        vs = []
        for vi, (lay, dm) in enumerate((([PH, "u8", "u8"], 2), (["u8", "u8"], 0), ([PH, PH, "u8", "u8"], 2))):
            fs = [Field(None, t, attrs=(["Deref", "DerefMut"] if i == dm else []), deref={"mark": i == dm}, deref_mut={"mark": i == dm}) for i, t in enumerate(lay)]
            vs.append(Variant("V%d" % vi, "tuple", fs))
        P = Program(pid(), "enum", "E", vs, ["Deref", "DerefMut"], focus={"Deref", "DerefMut"}, note="PhantomData before the designated field: enum tuple variants")
        P.tags["no_verus"] = "PhantomData fields: Kani on the concrete layout"
        out.append(P)
        for n in (4, 5):
            for shape in ("named", "tuple"):
                for dm, dmm in ((n - 1, 0), (0, n - 1), (n - 2, n - 1), (n - 1, n - 1)):
                    fs = deref_fields(shape, n, dm, dmm, True, "T0", k[0], LONG)
                    out.append(Program(pid(), "struct", "S", [Variant(None, shape, fs)], ["Deref", "DerefMut"], generics=["T0"], inst={"T0": "u8"},
                                       focus={"Deref", "DerefMut"}, note="wide struct %s n=%d deref@%d deref_mut@%d" % (shape, n, dm, dmm)))
    if prop == "C10":
        # a field type with an inherent `into` next to its From impl: the conversion must be the trait's
        for shape in ("named", "tuple"):
            fs = [Field(LONG[0] if shape == "named" else None, "crate::m::Adv", into={"marks": {}})]
            out.append(into_program(pid(), "struct", [Variant(None, shape, fs)], ["u32"], "sole Adv field -> u32 (inherent into must not be used) %s" % shape, 0))
            fs = [Field(LONG[0] if shape == "named" else None, "u8", into={"marks": {}}),
                  Field(LONG[1] if shape == "named" else None, "crate::m::Adv", attrs=["Into(u32)"], into={"marks": {"u32": None}})]
            out.append(into_program(pid(), "struct", [Variant(None, shape, fs)], ["u32"], "marked Adv field -> u32 %s" % shape, 0))
        vs = [Variant("V0", "tuple", [Field(None, "crate::m::Adv", into={"marks": {}})]),
              Variant("V1", "named", [Field("a", "u8", into={"marks": {}}), Field("b", "crate::m::Adv", attrs=["Into(u32)"], into={"marks": {"u32": None}})])]
        out.append(into_program(pid(), "enum", vs, ["u32"], "enum with Adv fields -> u32", 0))
        # same-type fallback (no markers) with the target-typed field at a different index in each variant
        for kinds3 in (("tuple", "tuple"), ("named", "named", "tuple"), ("tuple", "named", "tuple")):
            for lays in ([["u8", "u32"], ["u32", "u8"]], [["u8", "u16", "u32"], ["u32", "u8", "u16"], ["u16", "u32", "u8"]], [["u32", "u8"], ["u8", "u8", "u32"], ["u8", "u32", "u16"]]):
                if len(lays) != len(kinds3):
                    continue
                vs = [Variant("V%d" % vi, kd, [Field(LONG[i] if kd == "named" else None, t, into={"marks": {}}) for i, t in enumerate(lay)]) for vi, (kd, lay) in enumerate(zip(kinds3, lays))]
                out.append(into_program(pid(), "enum", vs, ["u32"], "same-type fallback at different indexes %s" % lays, 0))
        vs = [Variant("V0", "tuple", [Field(None, "u8", attrs=["Into(u32)"], into={"marks": {"u32": None}}), Field(None, "u32", into={"marks": {}}), Field(None, "u32", into={"marks": {}})]),
              Variant("V1", "tuple", [Field(None, "u8", into={"marks": {}}), Field(None, "u32", into={"marks": {}})]),
              Variant("V2", "named", [Field("a", "u32", into={"marks": {}}), Field("b", "u8", into={"marks": {}}), Field("c", "u16", into={"marks": {}})])]
        out.append(into_program(pid(), "enum", vs, ["u32"], "marker variant followed by two same-type-fallback variants", 0))
        for n in (4, 5):
            for shape in ("named", "tuple"):
                for at in (n - 1, n - 2, 0):
                    tys = ["u8"] * n
                    fs = []
                    for i in range(n):
                        if i == at:
                            sp, m = into_mark("u16", "u8", at % 2 == 0, k[0])
                            fs.append(Field(LONG[i] if shape == "named" else None, "u8", attrs=[sp], into={"marks": {"u16": m}}))
                        else:
                            fs.append(Field(LONG[i] if shape == "named" else None, "u8", into={"marks": {}}))
                    out.append(into_program(pid(), "struct", [Variant(None, shape, fs)], ["u16"], "wide struct %s n=%d Into(u16)@%d" % (shape, n, at), 0))
        # the same inside enum variants (the designated position in the second half but not last, same-typed neighbours)
        for n, at, tgt in ((4, 2, "u8"), (5, 3, "u16"), (4, 1, "u8"), (6, 4, "u16")):
            vs = []
            for vi, shape in enumerate(("tuple", "named")):
                fs = []
                for i in range(n):
                    if i == at:
                        use_m = (vi + n) % 2 == 0 and tgt == "u16"
                        sp, m = into_mark(tgt, "u8", use_m, k[0] + vi)
                        fs.append(Field(LONG[i] if shape == "named" else None, "u8", attrs=[sp], into={"marks": {tgt: m}}))
                    else:
                        fs.append(Field(LONG[i] if shape == "named" else None, "u8", into={"marks": {}}))
                vs.append(Variant("V%d" % vi, shape, fs))
            out.append(into_program(pid(), "enum", vs, [tgt], "wide enum variants n=%d Into(%s)@%d" % (n, tgt, at), 0))
    if prop == "C05":
        # more variants than a byte can number: a tag narrowed to u8 makes variants i and i+256 collide
        vs = []
        for i in range(258):
            if i in (1, 257):
                vs.append(Variant("V%d" % i, "tuple", [Field(None, "u8", hash={})]))
            elif i == 130:
                vs.append(Variant("V%d" % i, "named", [Field("a", "u8", hash={})]))
            else:
                vs.append(Variant("V%d" % i, "unit", []))
        # fields of the tag's own integer type in variants of different shapes: a tag fed at another position
        # (or not at all) in one shape only makes values of different variants feed identical data
        for ty in ("usize", "isize"):
            vs2 = [Variant("V0", "unit", []), Variant("V1", "named", [Field("x", ty, hash={})]), Variant("V2", "tuple", [Field(None, ty, hash={})]),
                   Variant("V3", "named", [Field("a", ty, hash={}), Field("b", ty, hash={})]), Variant("V4", "tuple", [Field(None, ty, hash={}), Field(None, ty, hash={})])]
            out.append(Program(pid(), "enum", "E", vs2, ["Hash"], focus={"Hash"}, note="enum with %s fields (the tag's own type) in named and tuple variants" % ty))
        P = Program(pid(), "enum", "E", vs, ["Hash"], focus={"Hash"}, note="258-variant enum (variant positions beyond one byte)")
        P.tags["no_verus"] = "258 x 258 case split of the injectivity lemma exceeds Z3's resource limit; decided by Kani (loop-free, full domain)"
        out.append(P)

    # variants that are field-less but not unit variants: `V()` and `V {}` (their arms are built by the tuple / named
    # templates with nothing in them), next to a unit variant and variants with fields
    def empties(group):
        sem = {"debug": {"ignore": False, "key": None, "method": None}}.get(group, {})
        return [Variant("V0", "tuple", []), Variant("V1", "named", []), Variant("V2", "tuple", [Field(None, "u8", **{group: dict(sem)})]),
                Variant("V3", "unit", []), Variant("V4", "named", [Field("a", "u8", **{group: dict(sem)}), Field("b", "u8", **{group: dict(sem)})])]
    if prop == "C02":
        out.append(Program(pid(), "enum", "E", empties("eq"), ["PartialEq"], focus={"PartialEq"}, note="wide: empty tuple / empty named variants"))
    if prop == "C03":
        for md in ("both", "po"):
            out.append(ord_program(pid(), "enum", "E", empties("ord"), md, [], 0, "wide: empty tuple / empty named variants mode=%s" % md))
    if prop == "C05":
        out.append(Program(pid(), "enum", "E", empties("hash"), ["Hash"], focus={"Hash"}, note="wide: empty tuple / empty named variants"))
    if prop == "C07":
        for cp in (False, True):
            vs = empties("clone")
            if not cp:
                vs[2].fields[0].attrs = ["Clone(method = crate::m::clone_a)"]; vs[2].fields[0].sem["clone"] = {"method": "crate::m::clone_a"}
            out.append(clone_program(pid(), "enum", "E", vs, [], cp, "wide: empty tuple / empty named variants copy=%s" % cp, 1))
        vs = empties("clone")
        vs[2].fields[0].attrs = ["Clone(method = crate::m::clone_a)"]; vs[2].fields[0].sem["clone"] = {"method": "crate::m::clone_a"}
        out.append(clone_program(pid(), "enum", "E", vs, [], True, "wide: empty tuple / empty named variants copy + method", 1))
    if prop == "C06":
        vs = empties("debug")
        for v in vs:
            v.sem["debug"] = {"name": True, "named_field": None}
        out.append(Program(pid(), "enum", "E", vs, ["Debug"], focus={"Debug"}, note="wide: empty tuple / empty named variants",
                           debug={"name": "default", "named_field": None}))

    if prop == "C03":
        # explicit ranks at isize::MIN next to UNRANKED fields (whose rank is isize::MIN + position): the explicit one
        # sorts before an unranked field declared earlier
        MIN = ISIZE_MIN
        for md in ("both", "po"):
            car = "Ord" if md == "both" else "PartialOrd"
            for pi, pat in enumerate(([3, None, MIN], ["i", None, None, MIN], [MIN, None, -5], [7, None, MIN + 1 + 1], [None, None, MIN + 1])):
                if pat == [None, None, MIN + 1]:
                    continue        # collides with the positional rank of field 1: rejected
                for shape in ("named", "tuple"):
                    if (pi + (shape == "named")) % 2 and md == "po":
                        continue
                    fs = []
                    for i, rk in enumerate(pat):
                        sem = {"ignore": rk == "i", "method": None, "rank": rk if isinstance(rk, int) else None}
                        sp = spell_field(car, sem, [0, 2, 1, 3][(pi + i) % 4] + (4 if i % 2 else 0))
                        fs.append(Field(LONG[i] if shape == "named" else None, "T0" if md == "both" else "u8", attrs=[sp] if sp else [], ord=sem))
                    out.append(ord_program(pid(), "struct", "S", [Variant(None, shape, fs)], md, ["T0"] if md == "both" else [], 0,
                                           "wide: explicit rank isize::MIN among unranked fields %s %s mode=%s" % (pat, shape, md)))
    if prop == "C09":
        # a tuple variant with more fields than a byte can index, designated field beyond position 255
        fsw = [Field(None, "u8", attrs=(["Deref"] if i == 257 else []), deref={"mark": i == 257}) for i in range(259)]
        vs = [Variant("V0", "tuple", [Field(None, "u8", deref={}), Field(None, "u8", attrs=["Deref"], deref={"mark": True}), Field(None, "u8", deref={})]),
              Variant("V1", "tuple", fsw)]
        P = Program(pid(), "enum", "E", vs, ["Deref"], focus={"Deref"}, note="wide: 259-field tuple variant, Deref field at position 257")
        P.tags["no_verus"] = "259 bindings per arm: decided by Kani on the concrete layout"
        out.append(P)
        fsw = [Field(None, "u8", attrs=(["Deref", "DerefMut"] if i == 256 else []), deref={"mark": i == 256}, deref_mut={"mark": i == 256}) for i in range(258)]
        P = Program(pid(), "struct", "S", [Variant(None, "tuple", fsw)], ["Deref", "DerefMut"], focus={"Deref", "DerefMut"}, note="wide: 258-field tuple struct, Deref/DerefMut field at position 256")
        P.tags["no_verus"] = "258 fields: decided by Kani on the concrete layout"
        out.append(P)

    # two-digit positions inside an ENUM tuple variant (bindings _10, _11 sort before _2 as text), and an enum whose LAST
    # non-unit variant has no compared field at all (empty or fully ignored) after variants that do have some
    if prop == "C05":
        out.append(Program(pid(), "enum", "E", [Variant("V0", "unit", []), Variant("V1", "tuple", wide_tuple("hash", "Hash", HASH_METHODS, 12))], ["Hash"], focus={"Hash"},
                           note="wide: 12-field tuple variant"))
    if prop == "C07":
        fs = [Field(None, "u8", attrs=(["Clone(method = crate::m::clone_a)"] if i in (3, 10) else []), clone={"method": "crate::m::clone_a" if i in (3, 10) else None}) for i in range(12)]
        out.append(clone_program(pid(), "enum", "E", [Variant("V0", "unit", []), Variant("V1", "tuple", fs)], [], False, "wide: 12-field tuple variant", 1))
    if prop == "C03":
        for md in ("both", "po"):
            car = "Ord" if md == "both" else "PartialOrd"
            meths = ["crate::m::cmp_a", "crate::m::cmp_b"] if md == "both" else ["crate::m::pcmp_a", "crate::m::pcmp_b"]
            out.append(ord_program(pid(), "enum", "E", [Variant("V0", "unit", []), Variant("V1", "tuple", wide_tuple("ord", car, meths, 12))], md, [], 0,
                                   "wide: 12-field tuple variant mode=%s" % md))
            for last in ("empty_tuple", "empty_named", "ignored"):
                lv = {"empty_tuple": Variant("V2", "tuple", []), "empty_named": Variant("V2", "named", []),
                      "ignored": Variant("V2", "tuple", [Field(None, "u8", attrs=["%s(ignore)" % car], ord={"ignore": True}), Field(None, "u8", attrs=["%s = false" % car], ord={"ignore": True})])}[last]
                vs = [Variant("V0", "tuple", [Field(None, "u8", ord={}), Field(None, "u8", ord={})]), Variant("V1", "named", [Field("a", "u8", ord={})]), lv, Variant("V3", "unit", [])]
                out.append(ord_program(pid(), "enum", "E", vs, md, [], 0, "wide: last non-unit variant without a compared field (%s) mode=%s" % (last, md)))
    if prop == "C02":
        for last in ("empty_tuple", "ignored"):
            lv = {"empty_tuple": Variant("V2", "tuple", []),
                  "ignored": Variant("V2", "named", [Field("a", "u8", attrs=["PartialEq(ignore)"], eq={"ignore": True})])}[last]
            vs = [Variant("V0", "tuple", [Field(None, "u8", eq={}), Field(None, "u8", eq={})]), Variant("V1", "named", [Field("a", "u8", eq={})]), lv, Variant("V3", "unit", [])]
            out.append(Program(pid(), "enum", "E", vs, ["PartialEq"], focus={"PartialEq"}, note="wide: last non-unit variant without a compared field (%s)" % last))
        # every compared field of the whole enum goes through a custom method (no field type gets an automatic bound)
        vs = [Variant("V0", "tuple", [Field(None, "u8", attrs=["PartialEq(method = crate::m::eq_a)"], eq={"method": "crate::m::eq_a"})]),
              Variant("V1", "named", [Field("a", "u8", attrs=["PartialEq(method = crate::m::eq_b)"], eq={"method": "crate::m::eq_b"}), Field("b", "u16", attrs=["PartialEq(ignore)"], eq={"ignore": True})]),
              Variant("V2", "unit", [])]
        out.append(Program(pid(), "enum", "E", vs, ["PartialEq"], focus={"PartialEq"}, note="wide: every compared field of the enum uses a method"))
    if prop == "C05":
        vs = [Variant("V0", "tuple", [Field(None, "u8", attrs=["Hash(method = crate::m::hash_a)"], hash={"method": "crate::m::hash_a"})]),
              Variant("V1", "named", [Field("a", "u8", attrs=["Hash(method = crate::m::hash_b)"], hash={"method": "crate::m::hash_b"}), Field("b", "u16", attrs=["Hash(ignore)"], hash={"ignore": True})]),
              Variant("V2", "unit", [])]
        out.append(Program(pid(), "enum", "E", vs, ["Hash"], focus={"Hash"}, note="wide: every hashed field of the enum uses a method"))

    if prop == "C06":
        # a field that is ignored AND carries a method, in structs (named, tuple, shown as the other style) and enum variants
        kk = 0
        for shape in ("named", "tuple"):
            for assign in (("I",), ("n", "I"), ("I", "n", "I"), ("m", "I", "n")):
                for nf in (None, shape != "named"):
                    kk += 1
                    if nf is not None and kk % 2:
                        continue
                    struct_style = (shape == "named") if nf is None else nf
                    generics, fields = [], []
                    for i, a in enumerate(assign):
                        f = dbg_field(LONG[i] if shape == "named" else None, "T%d" % len(generics), a, kk + i, struct_style)
                        if f.ty.startswith("T"):
                            generics.append(f.ty)
                        fields.append(f)
                    if all(f.s("debug", "ignore") for f in fields):
                        fields.append(dbg_field(LONG[len(fields)] if shape == "named" else None, "T%d" % len(generics), "n", kk, struct_style)); generics.append(fields[-1].ty)
                    out.append(Program(pid(), "struct", "S", [Variant(None, shape, fields)], [dbg_type_meta("default", nf, kk) or "Debug"], generics=generics,
                                       inst={g: "u8" for g in generics}, focus={"Debug"}, note="wide: ignore+method struct %s fields=%s named_field=%s" % (shape, "".join(assign), nf),
                                       debug={"name": "default", "named_field": nf}))
        vs = [Variant("V0", "tuple", [dbg_field(None, "T0", "I", 1, False), dbg_field(None, "T0", "n", 2, False)], debug={"name": True, "named_field": None}),
              Variant("V1", "named", [dbg_field("a", "T0", "n", 3, True), dbg_field("b", "T0", "I", 4, True)], debug={"name": True, "named_field": None})]
        out.append(Program(pid(), "enum", "E", vs, ["Debug"], generics=["T0"], inst={"T0": "u8"}, focus={"Debug"}, note="wide: ignore+method enum",
                           debug={"name": "default", "named_field": None}))
    if prop == "C02":
        # wide raw pointers: their own == compares address AND length
        PT = "*const [u8]"
        for shape in ("named", "tuple"):
            fs = [Field(LONG[0] if shape == "named" else None, PT, eq={}), Field(LONG[1] if shape == "named" else None, "u8", eq={})]
            P = Program(pid(), "struct", "S", [Variant(None, shape, fs)], ["PartialEq"], focus={"PartialEq"}, note="wide: wide raw pointer field struct %s" % shape)
            P.tags["no_verus"] = "raw pointer field: decided by Kani"
            out.append(P)
        vs = [Variant("V0", "tuple", [Field(None, PT, eq={})]), Variant("V1", "named", [Field("a", "u8", eq={}), Field("p", PT, eq={})]), Variant("V2", "unit", [])]
        P = Program(pid(), "enum", "E", vs, ["PartialEq"], focus={"PartialEq"}, note="wide: wide raw pointer fields enum")
        P.tags["no_verus"] = "raw pointer field: decided by Kani"
        out.append(P)

    if prop == "C02":
        # tuple-typed fields, written with a trailing comma (a one-element tuple needs it; rustfmt adds it to multi-line ones)
        for shape in ("named", "tuple"):
            fs = [Field(LONG[0] if shape == "named" else None, "(u8,)", eq={}), Field(LONG[1] if shape == "named" else None, "(u8, u8,)", eq={}), Field(LONG[2] if shape == "named" else None, "u8", eq={})]
            P = Program(pid(), "struct", "S", [Variant(None, shape, fs)], ["PartialEq"], focus={"PartialEq"}, note="wide: tuple-typed fields with trailing commas, struct %s" % shape)
            P.tags["no_verus"] = "tuple-typed fields: decided by Kani"
            out.append(P)
        vs = [Variant("V0", "tuple", [Field(None, "(u8,)", eq={})]), Variant("V1", "named", [Field("a", "(u8, u8,)", eq={}), Field("b", "u8", eq={})])]
        P = Program(pid(), "enum", "E", vs, ["PartialEq"], focus={"PartialEq"}, note="wide: tuple-typed fields with trailing commas, enum")
        P.tags["no_verus"] = "tuple-typed fields: decided by Kani"
        out.append(P)
    if prop == "C03":
        # every variant has fields and every field of every variant is ignored: the variants still order by discriminant
        for md in ("both", "po"):
            car = "Ord" if md == "both" else "PartialOrd"
            vs = [Variant("V0", "tuple", [Field(None, "u8", attrs=["%s(ignore)" % car], ord={"ignore": True})]),
                  Variant("V1", "named", [Field("a", "u8", attrs=["%s = false" % car], ord={"ignore": True}), Field("b", "u16", attrs=["%s(ignore = true)" % car], ord={"ignore": True})]),
                  Variant("V2", "tuple", [Field(None, "u8", attrs=["%s(ignore)" % car], ord={"ignore": True})])]
            out.append(ord_program(pid(), "enum", "E", vs, md, [], 0, "wide: every field of every variant ignored (same-typed fields irrelevant) mode=%s" % md))
    if prop == "C07":
        fs = [Field(None, "u8", clone={}), Field(None, "u8", attrs=["Clone(method = crate::m::alt::clone)"], clone={"method": "crate::m::alt::clone"})]
        out.append(clone_program(pid(), "struct", "S", [Variant(None, "tuple", fs)], [], False, "wide: method path ending in ::clone, struct", 1))
        vs = [Variant("V0", "unit", []), Variant("V1", "named", [Field("a", "u8", attrs=['Clone(method("crate::m::alt::clone"))'], clone={"method": "crate::m::alt::clone"}), Field("b", "u8", clone={})])]
        out.append(clone_program(pid(), "enum", "E", vs, [], False, "wide: method path ending in ::clone, enum", 1))
        out.append(clone_program(pid(), "enum", "E", copy.deepcopy(vs), [], True, "wide: method path ending in ::clone, Copy enum", 1))
    if prop == "C09":
        # named variants whose designated fields sit at the same position under different names, each name also present in the other variant
        vs = [Variant("V0", "named", [Field("w", "u8", deref={}, deref_mut={}), Field("h", "u8", attrs=["Deref", "DerefMut"], deref={"mark": True}, deref_mut={"mark": True})]),
              Variant("V1", "named", [Field("h", "u8", deref={}, deref_mut={}), Field("w", "u8", attrs=["Deref", "DerefMut"], deref={"mark": True}, deref_mut={"mark": True})]),
              Variant("V2", "named", [Field("w", "u8", attrs=["Deref"], deref={"mark": True}, deref_mut={}), Field("h", "u8", attrs=["DerefMut"], deref={}, deref_mut={"mark": True})])]
        out.append(Program(pid(), "enum", "E", vs, ["Deref", "DerefMut"], focus={"Deref", "DerefMut"}, note="wide: named variants with permuted field names, designated fields at the same position"))
    if prop == "C10":
        # two markers on one field, the first with a method that is generic over its result: the second target converts with Into
        for shape in ("named", "tuple"):
            for kind in ("struct", "enum"):
                fs = [Field("a" if shape == "named" else None, "u8", attrs=["Into(u16, method = crate::m::into_g)", "Into(u32)"], into={"marks": {"u16": "crate::m::into_g", "u32": None}}),
                      Field("b" if shape == "named" else None, "u8", into={"marks": {}})]
                vs = [Variant(None if kind == "struct" else "V0", shape, fs)] + ([Variant("V1", "tuple", [Field(None, "u8", into={"marks": {}})])] if kind == "enum" else [])
                P = into_program(pid(), kind, vs, ["u16", "u32"], "wide: generic conversion method on the first of two markers, %s %s" % (kind, shape), 0)
                P.tags["no_verus"] = "generic conversion method: decided by Kani"
                out.append(P)

    if prop == "C02":
        # fields spelled as float types next to an educed Eq: still compared with the type's own == (0.0 == -0.0, NaN != NaN)
        for shape in ("named", "tuple"):
            fs = [Field(LONG[0] if shape == "named" else None, "f32", eq={}), Field(LONG[1] if shape == "named" else None, "u8", eq={})]
            P = Program(pid(), "struct", "S", [Variant(None, shape, fs)], ["PartialEq", "Eq"], focus={"PartialEq"}, note="wide: literal f32 field with Eq educed, struct %s" % shape)
            P.tags["no_verus"] = "float field: decided by Kani"
            out.append(P)
        vs = [Variant("V0", "tuple", [Field(None, "f32", eq={})]), Variant("V1", "named", [Field("a", "u8", eq={}), Field("b", "f32", eq={})])]
        P = Program(pid(), "enum", "E", vs, ["Eq", "PartialEq"], focus={"PartialEq"}, note="wide: literal f32 fields with Eq educed, enum")
        P.tags["no_verus"] = "float field: decided by Kani"
        out.append(P)
    if prop == "C05":
        PHT = "(u8, core::marker::PhantomData<u16>)"
        fs = [Field("a", PHT, hash={}), Field("b", "u8", hash={}), Field("c", "core::marker::PhantomData<u16>", hash={})]
        out.append(Program(pid(), "struct", "S", [Variant(None, "named", fs)], ["Hash"], focus={"Hash"}, note="wide: tuple-typed field containing a PhantomData element, struct"))
        vs = [Variant("V0", "tuple", [Field(None, PHT, hash={})]), Variant("V1", "named", [Field("a", PHT, hash={}), Field("b", "u8", hash={})])]
        out.append(Program(pid(), "enum", "E", vs, ["Hash"], focus={"Hash"}, note="wide: tuple-typed field containing a PhantomData element, enum"))
    if prop == "C09":
        SL = "&'static [u8]"
        fs = [Field(None, "u8", deref={}), Field(None, SL, attrs=["Deref"], deref={"mark": True}), Field(None, "u8", deref={})]
        P = Program(pid(), "struct", "S", [Variant(None, "tuple", fs)], ["Deref"], focus={"Deref"}, note="wide: slice-reference designated field (struct)")
        P.tags["no_verus"] = "slice reference field: Kani on the concrete layout"
        out.append(P)
        vs = [Variant("V0", "tuple", [Field(None, SL, deref={"mark": True})]), Variant("V1", "named", [Field("a", "u8", deref={}), Field("b", SL, attrs=["Deref"], deref={"mark": True})])]
        P = Program(pid(), "enum", "E", vs, ["Deref"], focus={"Deref"}, note="wide: slice-reference designated fields (enum)")
        P.tags["no_verus"] = "slice reference field: Kani on the concrete layout"
        out.append(P)
    if prop == "C10":
        PH = "core::marker::PhantomData<u16>"
        for shape in ("named", "tuple"):
            fs = [Field("amount" if shape == "named" else None, "u16", into={"marks": {}}),
                  Field("unit" if shape == "named" else None, PH, attrs=["Into(u32, method = crate::m::into_ph)"], into={"marks": {"u32": "crate::m::into_ph"}})]
            P = into_program(pid(), "struct", [Variant(None, shape, fs)], ["u32"], "wide: marker with a method on a PhantomData field next to one data field, struct %s" % shape, 0)
            P.tags["no_verus"] = "PhantomData field with a method: decided by Kani"
            out.append(P)
        vs = [Variant("V0", "tuple", [Field(None, "u16", into={"marks": {}}), Field(None, PH, attrs=["Into(u32, method = crate::m::into_ph)"], into={"marks": {"u32": "crate::m::into_ph"}})]),
              Variant("V1", "tuple", [Field(None, "u32", into={"marks": {}})])]
        P = into_program(pid(), "enum", vs, ["u32"], "wide: marker with a method on a PhantomData field, enum", 0)
        P.tags["no_verus"] = "PhantomData field with a method: decided by Kani"
        out.append(P)

    return out


# ---------------------------------------------------------------------------------
# attribute placement (C14: one #[educe(A, B)] list vs several attributes, any order): the field-level
# attribute of the trait under contract next to an entry of another educed trait, in the same list
# before/after it, or in a separate #[educe(..)] attribute before/after it
def placements(P, k):
    import copy
    out = []
    if P.kind == "union":
        return out
    comp_trait, comp_meta = ("PartialEq", "PartialEq(ignore)") if "Debug" in P.focus else ("Debug", "Debug(ignore)")
    if any(t.split("(")[0].split(" ")[0] == comp_trait for t in P.traits):
        return out
    for mi, mode in enumerate(("same_before", "same_after", "split_before", "split_after")):
        Q = copy.deepcopy(P)
        Q.tags.pop("frozen_src", None)
        Q.pid = "pp%03d_%d" % (k, mi)
        Q.tags["prop"] = "C14"
        touched = False
        for v in Q.variants:
            for f in v.fields:
                if not f.attrs:
                    continue
                touched = True
                f.attrs = ([comp_meta] + f.attrs) if mode.endswith("before") else (f.attrs + [comp_meta])
                if mode.startswith("split"):
                    f.sem["_split_attrs"] = True
                else:
                    f.sem.pop("_split_attrs", None)
        if not touched:
            return []
        Q.traits = ([comp_trait] + Q.traits) if mi % 2 else (Q.traits + [comp_trait])
        if Q.type_attrs is not None:
            Q.type_attrs = [[t] for t in Q.traits]
        Q.note = "C14 placement %s of `%s` | %s" % (mode, comp_meta, P.note)
        out.append(Q)
    return out


def uniform_twins(programs, every=2):
    """twins in which every field has the same type (u8): a change that shuffles, shifts or leaks
    between fields then still type-checks and shows up as a wrong value instead of a compile error"""
    out = []
    k = 0
    for P in programs:
        if P.canary_of is not None or P.kind == "union" or P.tags.get("no_verus"):
            continue
        if max([len(v.fields) for v in P.variants] + [0]) < 2:
            continue
        if all(f.ty == "u8" for v in P.variants for f in v.fields):
            continue
        k += 1
        if k % every:
            continue
        Q = copy.deepcopy(P)
        Q.tags.pop("frozen_src", None)
        Q.pid = P.pid + "u"
        for v in Q.variants:
            for f in v.fields:
                f.ty = "u8"
        Q.generics = []
        Q.inst = {}
        Q.note = "uniform u8 twin of " + P.pid + ": " + P.note
        out.append(Q)
    return out


BOUND_PATH = {"PartialEq": "core::cmp::PartialEq", "Eq": "core::cmp::Eq", "PartialOrd": "core::cmp::PartialOrd",
              "Ord": "core::cmp::Ord", "Hash": "core::hash::Hash", "Debug": "core::fmt::Debug",
              "Clone": "core::clone::Clone", "Default": "core::default::Default"}


def bound_twins(programs, limit=6, genericize=False, suffix="b"):
    """twins of generic programs whose type-level metas carry an explicit `bound` parameter in
    every documented form (`bound(*)`, `bound(T: P)`, `bound = "T: P"`, `bound = true`,
    `bound(false)` with the bound moved onto the declaration).  The parameter changes the impl
    header only; the contract of the body is the one generated from the unchanged meaning."""
    out = []
    k = 0
    cands = [P for P in programs if P.canary_of is None and P.kind != "union" and P.type_attrs is None
             and not P.pid.endswith(("u", "a", "s")) and (P.generics or genericize)]
    # spread over the family (structs first, enums later in every family)
    picked = []
    for kind in ("struct", "enum"):
        cs = [P for P in cands if P.kind == kind]
        step = max(1, len(cs) // limit)
        picked.append(cs[::step])
    inter = [P for pair in itertools.zip_longest(*picked) for P in pair if P is not None]
    for P in inter:
        if len(out) >= limit:
            break
        if not P.generics and genericize:
            G = _genericize(P)
            if G is None:
                continue
            P = G
        if not P.generics or not all(re.match(r"^T\d$", g) for g in P.generics):
            continue
        used = [g for g in P.generics if any(re.search(r"\b%s\b" % g, f.ty) for v in P.variants for f in v.fields)]
        if used != list(P.generics):
            continue
        form = k % 5
        k += 1
        Q = copy.deepcopy(P)
        Q.tags.pop("frozen_src", None)
        Q.pid = P.pid + suffix
        has = lambda tn: any(re.match(r"%s\b" % tn, t) for t in Q.traits)
        copyish = has("Copy")
        if has("Eq") and not has("PartialEq"):
            continue
        need = []
        traits = []
        ok = True
        for j, t in enumerate(Q.traits):
            m = re.match(r"^(\w+)\s*(?:\((.*)\))?$", t, re.S)
            if m and (m.group(1) in ("Copy", "Eq") or (m.group(1) == "PartialOrd" and has("Ord"))):
                # these take no `bound` here: Eq next to PartialEq and PartialOrd next to Ord are generated by the other entry
                if m.group(1) in BOUND_PATH:
                    need.append(BOUND_PATH[m.group(1)])
                traits.append(t); continue
            if not m or m.group(1) not in BOUND_PATH:
                ok = False; break
            tn, args = m.group(1), m.group(2)
            path = BOUND_PATH[tn] if not (tn == "Clone" and copyish) else "core::marker::Copy"
            need.append(path)
            preds = ", ".join("%s: %s" % (g, path) for g in Q.generics)
            b = ["bound(*)", "bound(%s)" % preds, 'bound = "%s"' % preds, "bound = true", "bound(false)"][form]
            if tn == "Clone" and copyish and form == 0:
                b = "bound(%s)" % preds        # `*` would bound by Clone only, the Copy impl then does not compile
            if args is None or not args.strip():
                traits.append("%s(%s)" % (tn, b))
            elif (j + form) % 2:
                traits.append("%s(%s, %s)" % (tn, b, args))
            else:
                traits.append("%s(%s, %s)" % (tn, args, b))
        if not ok:
            continue
        Q.traits = traits
        if form == 4:
            Q.generics = ["%s: %s" % (g, " + ".join(dedup_list(need))) for g in Q.generics]
            if any(x in need for x in ("core::cmp::Eq", "core::cmp::Ord")):
                # the bound now sits on the declaration: S<f32> would be ill-formed
                Q.inst = {k: ("u8" if v == "f32" else v) for k, v in Q.inst.items()}
        Q.note = "explicit bound twin (form %d) of %s: %s" % (form, P.pid, P.note)
        out.append(Q)
    return out


def _genericize(P):
    """the same program with the type of its first attribute-free field turned into a parameter T0
    (instantiated with the original type for the Kani twin)"""
    if any("expr" in t for t in P.traits) or any("expr" in a for v in P.variants for a in (v.attrs or [])):
        return None
    for v in P.variants:
        for f in v.fields:
            if not f.attrs and re.match(r"^(u8|u16|u32|bool|i8|i16)$", f.ty):
                Q = copy.deepcopy(P)
                Q.tags.pop("frozen_src", None)
                ty = f.ty
                for w in Q.variants:
                    for g in w.fields:
                        if not g.attrs and g.ty == ty:
                            g.ty = "T0"
                Q.generics = ["T0"]
                Q.inst = {"T0": ty}
                return Q
    return None


def dedup_list(xs):
    o = []
    for x in xs:
        if x not in o:
            o.append(x)
    return o


SELF_ADV = """#[allow(dead_code, unreachable_code, unused_variables)]
impl%s %s %s {
    pub fn eq(&self, _o: &Self) -> bool { panic!("inherent eq of the educed type called") }
    pub fn ne(&self, _o: &Self) -> bool { panic!("inherent ne of the educed type called") }
    pub fn partial_cmp(&self, _o: &Self) -> Option<core::cmp::Ordering> { panic!("inherent partial_cmp of the educed type called") }
    pub fn cmp(&self, _o: &Self) -> core::cmp::Ordering { panic!("inherent cmp of the educed type called") }
    pub fn lt(&self, _o: &Self) -> bool { panic!("inherent lt of the educed type called") }
    pub fn le(&self, _o: &Self) -> bool { panic!("inherent le of the educed type called") }
    pub fn gt(&self, _o: &Self) -> bool { panic!("inherent gt of the educed type called") }
    pub fn ge(&self, _o: &Self) -> bool { panic!("inherent ge of the educed type called") }
    pub fn hash<HH9: core::hash::Hasher>(&self, _h: &mut HH9) { panic!("inherent hash of the educed type called") }
    pub fn clone(&self) -> Self { panic!("inherent clone of the educed type called") }
    pub fn clone_from(&mut self, _s: &Self) { panic!("inherent clone_from of the educed type called") }
    pub fn default() -> Self { panic!("inherent default of the educed type called") }
    pub fn fmt(&self, _f: &mut core::fmt::Formatter<'_>) -> core::fmt::Result { panic!("inherent fmt of the educed type called") }
}
"""


def selfadv_twins(programs, every=5, limit=12):
    """twins whose EDUCED TYPE ITSELF has inherent methods named like the trait methods (all panic): generated code
    that reaches a trait method of Self through method-call syntax (`self.cmp(other)`, `source.clone()`,
    `Self::default()`) silently resolves to them; every call of one is a failed check"""
    out = []
    k = 0
    for P in programs:
        if len(out) >= limit:
            break
        if P.canary_of is not None or P.kind == "union" or P.pid[-1] in "uab":
            continue
        k += 1
        if k % every:
            continue
        Q = copy.deepcopy(P)
        Q.tags.pop("frozen_src", None)
        Q.pid = P.pid + "s"
        g = "<" + ", ".join(Q.generics) + ">" if Q.generics else ""
        Q.tags["pre_items"] = Q.tags.get("pre_items", "") + SELF_ADV % (g, Q.ty_generic(), ("where " + Q.where) if Q.where else "")
        Q.note = "self-adversarial twin (the educed type has panicking inherent eq/cmp/hash/clone/default/fmt) of " + P.pid + ": " + P.note
        out.append(Q)
    return out


def foreign_attr_twins(programs, limit=6):
    """twins whose fields carry OTHER attributes next to the educe ones: a doc comment (a name-value attribute) before the
    educe attribute, a list attribute (`#[allow(..)]`) after it, or both around it; nothing about the derive changes"""
    out = []
    cands = [P for P in programs if P.canary_of is None and P.kind != "union" and not P.pid[-1] in "uabs"
             and any(f.attrs for v in P.variants for f in v.fields)]
    step = max(1, len(cands) // limit)
    for k, P in enumerate(cands[::step][:limit]):
        Q = copy.deepcopy(P)
        Q.tags.pop("frozen_src", None)
        Q.pid = P.pid + "f"
        j = 0
        for v in Q.variants:
            for f in v.fields:
                if f.attrs:
                    f.sem["_foreign_attrs"] = [("/// a documented field\n", ""), ("", "#[allow(dead_code)] "), ("/** block doc */ #[allow(unused)] ", "#[doc = \"after\"] ")][(k + j) % 3]
                    j += 1
        Q.note = "foreign attributes (doc comments, #[allow]) around the field-level educe attributes of " + P.pid + ": " + P.note
        out.append(Q)
    return out


def adv_twins(programs, every=3):
    """twins whose plain fields are DECLARED with the adversarial type crate::m::Adv (inherent methods named
    like the trait methods, doing the wrong thing).  Instantiating a type parameter with Adv is not enough:
    generic code resolves method calls against the bound, so only a concrete field type exposes a
    generated `x.clone()` / `a.eq(b)` / `x.hash(h)` that should have been a fully qualified trait call."""
    out = []
    k = 0
    for P in programs:
        if P.canary_of is not None or P.kind == "union" or P.tags.get("no_verus") or P.pid.endswith("u"):
            continue
        if not any(v.fields for v in P.variants):
            continue
        k += 1
        if k % every:
            continue
        Q = copy.deepcopy(P)
        Q.tags.pop("frozen_src", None)
        Q.pid = P.pid + "a"
        changed = False
        for v in Q.variants:
            for f in v.fields:
                meth = any(isinstance(d, dict) and d.get("method") for d in f.sem.values())
                if not meth and not f.ty.startswith("&") and "PhantomData" not in f.ty:
                    f.ty = "crate::m::Adv"; changed = True
        if not changed:
            continue
        Q.generics = []
        Q.inst = {}
        Q.tags["no_verus"] = "adversarial concrete field type: decided by Kani (vstd has no specs for it)"
        Q.note = "Adv-typed twin of " + P.pid + ": " + P.note
        out.append(Q)
    return out


def own_spellings(prop, focus_trait):
    """the C14 spelling members of one trait, counted under that trait's own property as well"""
    out = []
    for P in c14("quick", 0):
        if focus_trait in P.focus or (focus_trait == "Ord" and "PartialOrd" in P.focus):
            if "not-ignored" in P.note or "rank literal" in P.note or "rank forms" in P.note:
                P.pid = "ps" + P.pid[1:]
                P.tags["prop"] = prop
                out.append(P)
    return out


def own_placements(prop, programs, n=3):
    """a few placement variants of a family's own programs, counted under that property"""
    ps = [p for p in programs if p.canary_of is None and p.kind != "union" and any(f.attrs for v in p.variants for f in v.fields)]
    out = []
    step = max(1, len(ps) // n)
    k = 0
    for P in ps[2::step] + ps[3::step]:
        qs = placements(P, 900 + k)
        if not qs:
            continue
        for Q in qs:
            Q.tags["prop"] = prop
            Q.note = Q.note.replace("C14 placement", "placement")
            out.append(Q)
        k += 1
        if k >= n:
            break
    return out


def c14_placements(tier):
    out = []
    k = 0
    bases = []
    for fam in (c02, c03, c05, c07, c08, c09, c10, c06):
        ps = [p for p in fam("quick", 0) if p.canary_of is None and any(f.attrs for v in p.variants for f in v.fields)]
        structs = [p for p in ps if p.kind == "struct"]
        enums = [p for p in ps if p.kind == "enum"]
        step_s = max(1, len(structs) // (5 if tier == "quick" else 20))
        step_e = max(1, len(enums) // (3 if tier == "quick" else 12))
        bases += structs[1::step_s][:5 if tier == "quick" else 20] + enums[1::step_e][:3 if tier == "quick" else 12]
    for P in bases:
        k += 1
        out += placements(P, k)
    return out
