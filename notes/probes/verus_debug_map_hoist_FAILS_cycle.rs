use vstd::prelude::*;
verus! {
#[verifier::external_type_specification]
#[verifier::external_body]
pub struct ExDebugMap<'a, 'b: 'a>(core::fmt::DebugMap<'a, 'b>);
#[verifier::external_type_specification]
#[verifier::external_body]
pub struct ExDebugStruct<'a, 'b: 'a>(core::fmt::DebugStruct<'a, 'b>);

pub struct Tr(pub int);
pub uninterp spec fn f_state(f: &core::fmt::Formatter<'_>) -> int;
pub uninterp spec fn wr(st: int, s: Seq<char>) -> core::fmt::Result;
pub uninterp spec fn dyn_id(v: &dyn core::fmt::Debug) -> int;
pub uninterp spec fn tm_start(st: int) -> Tr;
pub uninterp spec fn tm_entry(t: Tr, k: int, v: int) -> Tr;
pub uninterp spec fn dm_trace(d: &core::fmt::DebugMap<'_, '_>) -> Tr;
pub uninterp spec fn mfin(t: Tr) -> core::fmt::Result;
// a value whose Debug writes exactly the raw key string
pub uninterp spec fn raw_key(s: Seq<char>) -> int;
// a value whose Debug is method m applied to field value id
pub uninterp spec fn via_method(m: int, v: int) -> int;

pub assume_specification<'a> [core::fmt::Formatter::<'a>::write_str] (f: &mut core::fmt::Formatter<'a>, s: &str) -> (r: core::fmt::Result)
    ensures r == wr(f_state(old(f)), s@);
pub assume_specification<'a, 'b> [core::fmt::Formatter::<'a>::debug_map] (f: &'b mut core::fmt::Formatter<'a>) -> (r: core::fmt::DebugMap<'b, 'a>)
    ensures dm_trace(&r) == tm_start(f_state(old(f)));
pub assume_specification<'a, 'b, 'c> [core::fmt::DebugMap::<'a, 'b>::entry] (d: &'c mut core::fmt::DebugMap<'a, 'b>, k: &dyn core::fmt::Debug, v: &dyn core::fmt::Debug) -> (r: &'c mut core::fmt::DebugMap<'a, 'b>)
    where 'b: 'a,
    ensures dm_trace(final(d)) == tm_entry(dm_trace(old(d)), dyn_id(k), dyn_id(v));
pub assume_specification<'a, 'b> [core::fmt::DebugMap::<'a, 'b>::finish] (d: &mut core::fmt::DebugMap<'a, 'b>) -> (r: core::fmt::Result)
    where 'b: 'a,
    ensures r == mfin(dm_trace(old(d)));

pub struct N { pub a: u8, pub b: u16 }

// ---- hoisted verbatim from inside N::fmt ----
#[allow(non_camel_case_types)]
pub struct Educe__RawString(pub &'static str);
impl ::core::fmt::Debug for Educe__RawString {
    #[inline]
    fn fmt(&self, f: &mut ::core::fmt::Formatter<'_>)
        -> (r: ::core::fmt::Result) ensures r == wr(f_state(old(f)), self.0@) {
        f.write_str(self.0)
    }
}
// semantic link (axiom justified by the impl just verified): a RawString value formats as its string
pub broadcast axiom fn raw_key_axiom(x: &Educe__RawString) ensures #[trigger] dyn_id(x) == raw_key(x.0@);

broadcast use raw_key_axiom;
impl ::core::fmt::Debug for N where u8: ::core::fmt::Debug,
    u16: ::core::fmt::Debug {
    #[inline]
    fn fmt(&self, f: &mut ::core::fmt::Formatter) -> (r: ::core::fmt::Result) 
      ensures r == mfin(tm_entry(tm_entry(tm_start(f_state(old(f))), raw_key("a"@), dyn_id(&self.a)), raw_key("bb"@), dyn_id(&self.b)))
    {
        let mut builder = f.debug_map();
        builder.entry(&Educe__RawString("a"), &self.a);
        builder.entry(&Educe__RawString("bb"), &self.b);
        builder.finish()
    }
}
}
fn main() {}
