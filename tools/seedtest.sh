#!/bin/sh
# apply a seeded patch to /repo, run the named checks (quick), undo straight afterwards
P=$1; shift
cd /verif
git -C /repo apply $P || exit 2
for c in "$@"; do
  VERIF_PLAYBACKS=1 VERIF_SEARCHES=3 ./check $c > work/seed_$c.out 2> work/seed_$c.err; rc=$?
  echo "$c rc=$rc violations=$(grep -c VIOLATION work/seed_$c.out) | $(tail -1 work/seed_$c.err | cut -c1-200)"
  grep VIOLATION work/seed_$c.out | head -3
done
git -C /repo checkout -- . && git -C /repo clean -fdq src
git -C /repo status --short
