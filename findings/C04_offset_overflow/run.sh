#!/bin/sh
# usage: run.sh [path-to-educe-tree]   exit 0 = property holds, 1 = violation
cd "$(dirname "$0")"; R=${1:-/repo}
sed -i "s#path = \"[^\"]*\"#path = \"$R\"#" Cargo.toml; cp $R/Cargo.lock . 2>/dev/null
cargo run --offline -q; rc=$?
sed -i "s#path = \"[^\"]*\"#path = \"/repo\"#" Cargo.toml
exit $rc
