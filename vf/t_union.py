"""Unions (C20, partial): educed PartialEq / Hash / Clone operate on exactly the
size_of::<Self>() bytes of the value.  Kani only (raw byte views are outside Verus).  The
harness loops run over the fixed object size with unwinding assertions on, so a pass is a
complete proof for that union, not a bounded one."""
from .emit import Unit, trait_of
import re

COVERS = ["Debug"]


def kani(P, u, prop):
    n = P.s("union", "size")
    u.kani_oracle.append("""pub const N: usize = %d;
pub fn bytes(x: &TI) -> [u8; N] { unsafe { core::mem::transmute_copy::<TI, [u8; N]>(x) } }
pub fn size_ok() -> bool { core::mem::size_of::<TI>() == N }
""" % n)
    if "Debug" in P.focus:
        name = _dbg_name(P)
        body = ("core::fmt::Debug::fmt(&b[..], f)" if name is False else 'f.debug_tuple("%s").field(&&b[..]).finish()' % name)
        u.kani_oracle.append("""/// what the educed Debug must print: core::fmt's own builders over the value's size_of::<Self>() bytes
pub struct Expected<'a>(pub &'a TI);
impl<'a> core::fmt::Debug for Expected<'a> {
    fn fmt(&self, f: &mut core::fmt::Formatter<'_>) -> core::fmt::Result { let b = bytes(self.0); %s }
}
""" % body)
        u.replay.append('{ let x = oracle::mk(s); chk(out, "{:?}", format!("{:?}", x), format!("{:?}", oracle::Expected(&x))); chk(out, "{:#?}", format!("{:#?}", x), format!("{:#?}", oracle::Expected(&x))); }')
    if "PartialEq" in P.focus:
        u.kani_harness.append("""
#[kani::proof]
#[kani::unwind(%d)]
pub fn union_eq_h() {
    assert!(oracle::size_ok());
    let a = oracle::mk(&mut KaniSrc); let b = oracle::mk(&mut KaniSrc);
    let r = a == b;
    assert!(r == (oracle::bytes(&a) == oracle::bytes(&b)), "contract: a == b  <=>  the size_of::<Self>() bytes are equal");
    assert!((a != b) == !r, "contract: != is the negation");
    kani::cover!(true);
}
""" % (n + 2))
        u.kani_obls["union_eq_h"] = ("%s/%s/PartialEq::eq/contract" % (prop, P.pid), "(a == b) == (bytes(a) == bytes(b)) over exactly size_of::<Self>() bytes; CBMC pointer checks forbid a longer view")
        u.replay.append('{ let a = oracle::mk(s); let b = oracle::mk(s); chk(out, "a == b", a == b, oracle::bytes(&a) == oracle::bytes(&b)); }')
    if "Hash" in P.focus:
        u.kani_oracle.append("""pub fn hash_rec(x: &TI) -> crate::src::Rec { let mut r = crate::src::Rec::new(); core::hash::Hash::hash(x, &mut r); r }
/// one length-prefixed byte-slice write of the value's bytes
pub fn hash_expected(x: &TI) -> crate::src::Rec { let mut r = crate::src::Rec::new(); let b = bytes(x); core::hash::Hash::hash(&b[..], &mut r); r }
""")
        u.kani_harness.append("""
#[kani::proof]
#[kani::unwind(34)]
pub fn union_hash_h() {
    let a = oracle::mk(&mut KaniSrc);
    let (r, e) = (oracle::hash_rec(&a), oracle::hash_expected(&a));
    assert!(!r.overflow && !e.overflow, "recorder capacity");
    assert!(r == e, "contract: Hash feeds exactly the size_of::<Self>() bytes as one byte slice");
    kani::cover!(true);
}
""")
        if 0 < n <= 8:      # (iterating a slice of zero-sized elements does not terminate in reasonable time under CBMC)
            u.kani_oracle.append("""/// a one-element slice of the union: the slice's length prefix, then the element as above
pub fn hash_slice_rec(x: &TI) -> crate::src::Rec { let mut r = crate::src::Rec::new(); core::hash::Hash::hash(core::slice::from_ref(x), &mut r); r }
pub fn hash_slice_expected(x: &TI) -> crate::src::Rec { use core::hash::Hasher; let mut r = crate::src::Rec::new(); r.write_usize(1); let b = bytes(x); core::hash::Hash::hash(&b[..], &mut r); r }
""")
            u.kani_harness.append("""
#[kani::proof]
#[kani::unwind(34)]
pub fn union_hash_slice_h() {
    let a = oracle::mk(&mut KaniSrc);
    let (r, e) = (oracle::hash_slice_rec(&a), oracle::hash_slice_expected(&a));
    assert!(!r.overflow && !e.overflow, "recorder capacity");
    assert!(r == e, "contract: inside a slice the union still feeds its size_of::<Self>() bytes as one byte slice");
    kani::cover!(true);
}
""")
            u.kani_obls["union_hash_slice_h"] = ("%s/%s/Hash::hash_slice/contract" % (prop, P.pid), "hashing &[a] feeds the length prefix 1 and then exactly what hashing a feeds")
            u.replay.append('{ let a = oracle::mk(s); chk(out, "hash data of &[a]", oracle::hash_slice_rec(&a), oracle::hash_slice_expected(&a)); }')
        u.kani_obls["union_hash_h"] = ("%s/%s/Hash::hash/contract" % (prop, P.pid), "recorded hasher calls == those of hashing the byte slice bytes(a)[..]")
        u.replay.append('{ let a = oracle::mk(s); chk(out, "hash data", oracle::hash_rec(&a), oracle::hash_expected(&a)); }')
    if "Clone" in P.focus:
        u.kani_harness.append("""
#[kani::proof]
#[kani::unwind(%d)]
pub fn union_clone_h() {
    let a = oracle::mk(&mut KaniSrc);
    let c = Clone::clone(&a);
    assert!(oracle::bytes(&c) == oracle::bytes(&a), "contract: clone is a bitwise copy");
    let mut t = oracle::mk(&mut KaniSrc);
    Clone::clone_from(&mut t, &a);
    assert!(oracle::bytes(&t) == oracle::bytes(&a), "contract: after t.clone_from(&a) every byte of t is that of a");
    oracle::needs_copy::<TI>();
    kani::cover!(true);
}
""" % (n + 2))
        u.kani_oracle.append("pub fn needs_copy<T: Copy>() {}\n")
        u.kani_obls["union_clone_h"] = ("%s/%s/Clone::clone/contract" % (prop, P.pid), "bytes(a.clone()) == bytes(a); after t.clone_from(&a): bytes(t) == bytes(a); the union is Copy")
        u.replay.append('{ let a = oracle::mk(s); let c = Clone::clone(&a); chk(out, "bytes(a.clone())", oracle::bytes(&c), oracle::bytes(&a));\n'
                        '      let mut t = oracle::mk(s); Clone::clone_from(&mut t, &a); chk(out, "bytes(t) after t.clone_from(&a)", oracle::bytes(&t), oracle::bytes(&a)); }')


# ---------------------------------------------------------------------------------
# Debug on unions: Verus, on the verbatim impl with two mechanical replacements (post_render)
def _dbg_name(P):
    n = P.s("debug", "name", "default")
    if n == "default" or n is True:
        return P.name
    return n          # False -> nameless, str -> custom name


def verus(P, impls, u, prop="C20"):
    if "Debug" not in P.focus:
        u.skip_verus = "only Debug on unions has a Verus unit (byte views of ==, hash, clone: Kani)"
        return u
    ims = [im for im in impls if trait_of(im) == "Debug"]
    if len(ims) != 1:
        u.skip_verus = "expected one Debug impl"
        return u
    ty = P.ty_generic()
    view = "spec_view({p0}, vstd::layout::size_of::<%s>() as int)" % ty
    name = _dbg_name(P)
    if name is False:
        ens = "r == slice_fmt(%s@, f_state(old({p1})))" % view
        txt = "fmt(x, f) == <[u8] as Debug>::fmt(the size_of::<Self>() bytes of x, f)"
    else:
        ens = 'r == tfin(tt_field(tt_start(f_state(old({p1})), "%s"@), dyn_id(&%s)))' % (name, view)
        txt = 'fmt(x, f) == f.debug_tuple("%s").field(&<the size_of::<Self>() bytes of x>).finish()' % name
    u.verus_edits[("Debug", "fmt")] = ens
    u.verus_obls["%s::fmt" % P.name] = ("%s/%s/Debug::fmt/ensures" % (prop, P.pid), txt)
    return u


RAW_VIEW = re.compile(r"unsafe\s*\{\s*::core::slice::from_raw_parts\(\s*self\s+as\s+\*const\s+Self\s+as\s+\*const\s+u8\s*,\s*(\w+)\s*\)\s*\}")
SLICE_FMT = re.compile(r"::core::fmt::Debug::fmt\(\s*(\w+)\s*,\s*f\s*\)")


def post_render(P, rendered, log):
    """the two constructs Verus cannot ingest are replaced by stubs with assumed contracts (prelude):
    the raw byte view and the final call of the slice's own Debug impl; everything else stays verbatim"""
    if "Debug" not in P.focus:
        return rendered, ""
    out, n1 = RAW_VIEW.subn(lambda m: "crate::bytes_view(self, %s)" % m.group(1), rendered)
    if n1:
        log.append("replaced `unsafe { slice::from_raw_parts(self as *const Self as *const u8, n) }` by the stub bytes_view(self, n) (assumed contract: the n bytes at self)")
    out, n2 = SLICE_FMT.subn(lambda m: "crate::slice_debug_fmt(%s, f)" % m.group(1), out)
    if n2:
        log.append("replaced `Debug::fmt(<slice>, f)` by the stub slice_debug_fmt (assumed contract: the slice's own Debug)")
    return out, ""
