"""Program model: a type definition with educe attributes + the *meaning* of those
attributes (sem), kept separately from their spelling.  The oracle side only ever
reads `sem`; the family source only ever uses the spelled text."""
import copy

ISIZE_MIN = -(1 << 63)


class Field:
    def __init__(self, name, ty, attrs=None, **sem):
        self.name = name          # None for tuple fields
        self.ty = ty              # type text as written
        self.idx = 0
        self.attrs = list(attrs or [])   # spelled educe metas, e.g. 'PartialEq(ignore)'
        # sem: trait-group -> dict.  groups: eq, ord, hash, clone, debug, default, deref, deref_mut, into
        self.sem = sem

    def s(self, group, key, default=None):
        return self.sem.get(group, {}).get(key, default)

    @property
    def key(self):
        """field accessor / identifier"""
        return self.name if self.name is not None else str(self.idx)

    @property
    def bind(self):
        return self.name if self.name is not None else "_%d" % self.idx


class Variant:
    def __init__(self, name, kind, fields, discr=None, attrs=None, **sem):
        self.name = name          # None for a struct's single pseudo-variant
        self.kind = kind          # 'unit' | 'tuple' | 'named'
        self.fields = fields
        for i, f in enumerate(fields):
            f.idx = i
        self.discr = discr        # explicit discriminant (int) or None
        self.attrs = list(attrs or [])
        self.sem = sem
        self.idx = 0

    def s(self, group, key, default=None):
        return self.sem.get(group, {}).get(key, default)


class Program:
    def __init__(self, pid, kind, name, variants, traits, generics=(), inst=None,
                 repr_=None, focus=(), type_attrs=None, extra_derive=(), note="", **sem):
        self.pid = pid
        self.kind = kind          # 'struct' | 'enum' | 'union'
        self.name = name
        self.variants = variants
        for i, v in enumerate(variants):
            v.idx = i
        self.traits = list(traits)        # spelled type-level metas, e.g. ['PartialEq', 'Debug(name = "X")']
        self.generics = list(generics)    # generic params as declared, e.g. ['T0', 'T1: Copy']
        self.inst = dict(inst or {})      # type param name -> concrete type for the Kani twin
        self.repr = repr_
        self.focus = set(focus)           # trait names under contract in this program
        self.type_attrs = type_attrs      # None -> one #[educe(a, b, c)] line ; else list of lists
        self.extra_derive = list(extra_derive)
        self.note = note
        self.sem = sem
        self.where = ""
        self.canary_of = None
        self.tags = {}

    # ---- shape helpers -------------------------------------------------------
    def s(self, group, key, default=None):
        return self.sem.get(group, {}).get(key, default)

    @property
    def gen_names(self):
        return [g.split(":")[0].strip().replace("const ", "").split()[0] if not g.startswith("'") else g.split(":")[0].strip()
                for g in self.generics]

    def ty_generic(self):
        g = self.gen_names
        return self.name + ("<" + ", ".join(g) + ">" if g else "")

    def ty_inst(self):
        g = self.gen_names
        return self.name + ("<" + ", ".join(self.inst.get(x, x) for x in g) + ">" if g else "")

    def inst_ty(self, ty):
        """substitute type params by their Kani instantiation in a type text"""
        import re
        def rep(m):
            return self.inst.get(m.group(0), m.group(0))
        return re.sub(r"'?[A-Za-z_][A-Za-z0-9_]*", rep, ty)

    def ctor(self, v):
        if self.kind == "enum":
            return "%s::%s" % (self.name, v.name)
        return self.name

    def pat(self, v, pre, only=None, by_ref=False):
        """pattern for variant v binding each field i to <pre><i>; `only` restricts the
        bound fields (others become `_`)."""
        c = self.ctor(v)
        def b(f):
            if only is not None and f.idx not in only:
                return "_"
            return "%s%d" % (pre, f.idx)
        if v.kind == "unit":
            return c
        if v.kind == "tuple":
            return "%s(%s)" % (c, ", ".join(b(f) for f in v.fields))
        return "%s { %s }" % (c, ", ".join("%s: %s" % (f.name, b(f)) for f in v.fields))

    def build(self, v, vals):
        """constructor expression for variant v from a list of value expressions"""
        c = self.ctor(v)
        if v.kind == "unit":
            return c
        if v.kind == "tuple":
            return "%s(%s)" % (c, ", ".join(vals))
        return "%s { %s }" % (c, ", ".join("%s: %s" % (f.name, x) for f, x in zip(v.fields, vals)))

    # ---- source rendering ----------------------------------------------------
    def _field_src(self, f, with_attrs, pub=True):
        a = ""
        if with_attrs and f.attrs:
            if f.sem.get("_split_attrs"):
                a = " ".join("#[educe(%s)]" % x for x in f.attrs) + " "
            else:
                a = "#[educe(%s)] " % ", ".join(f.attrs)
        if with_attrs and f.sem.get("_foreign_attrs"):
            pre, post = f.sem["_foreign_attrs"]
            a = pre + a + post
        p = "pub " if pub else ""
        if f.name is None:
            return "%s%s%s" % (a, p, f.ty)
        return "%s%s%s: %s" % (a, p, f.name, f.ty)

    def _variant_body(self, v, with_attrs, pub):
        if v.kind == "unit":
            return ""
        fs = ", ".join(self._field_src(f, with_attrs, pub) for f in v.fields)
        return "(%s)" % fs if v.kind == "tuple" else " { %s }" % fs

    def typedef(self, with_attrs=True):
        if self.tags.get("frozen_src") and with_attrs in self.tags["frozen_src"]:
            return self.tags["frozen_src"][with_attrs]
        return self._typedef(with_attrs)

    def freeze(self):
        self.tags["frozen_src"] = {True: self._typedef(True), False: self._typedef(False)}

    def _typedef(self, with_attrs=True):
        """the type definition; with_attrs=False gives the generator's copy used in the
        Verus file (the inert educe helper attributes dropped, fields pub)."""
        out = []
        if with_attrs:
            d = ["Educe"] + self.extra_derive
            out.append("#[derive(%s)]" % ", ".join(d))
            if self.type_attrs is None:
                out.append("#[educe(%s)]" % ", ".join(self.traits))
            else:
                for grp in self.type_attrs:
                    out.append("#[educe(%s)]" % ", ".join(grp))
        if self.repr:
            out.append("#[repr(%s)]" % self.repr)
        g = "<" + ", ".join(self.generics) + ">" if self.generics else ""
        wh = (" where " + self.where) if self.where else ""
        if self.kind == "struct":
            v = self.variants[0]
            if v.kind == "unit":
                out.append("pub struct %s%s%s;" % (self.name, g, wh))
            elif v.kind == "tuple":
                out.append("pub struct %s%s%s%s;" % (self.name, g, self._variant_body(v, with_attrs, True), wh))
            else:
                out.append("pub struct %s%s%s%s" % (self.name, g, wh, self._variant_body(v, with_attrs, True)))
        elif self.kind == "union":
            v = self.variants[0]
            out.append("pub union %s%s%s%s" % (self.name, g, wh, self._variant_body(v, with_attrs, True)))
        else:
            vs = []
            for v in self.variants:
                a = ""
                if with_attrs and v.attrs:
                    a = "#[educe(%s)] " % ", ".join(v.attrs)
                d = " = %d" % v.discr if v.discr is not None else ""
                if v.sem.get("discr_src"):
                    d = " = " + v.sem["discr_src"]
                vs.append("    %s%s%s%s," % (a, v.name, self._variant_body(v, with_attrs, False), d))
            out.append("pub enum %s%s%s {\n%s\n}" % (self.name, g, wh, "\n".join(vs)))
        return "\n".join(out)

    def discriminants(self):
        """declared discriminant per variant (explicit `= n`, else predecessor + 1, first 0)"""
        out, cur = [], -1
        for v in self.variants:
            cur = v.discr if v.discr is not None else cur + 1
            out.append(cur)
        return out

    def clone(self):
        """deep copy whose *source text* stays that of the original (canaries mutate only sem)"""
        self.freeze()
        return copy.deepcopy(self)


# ---------------------------------------------------------------------------------
# spellings


def spell_param(name, value, form):
    """value: rust token text (path / int / ident) or True for flag; form selects syntax."""
    if value is True:
        return [name, "%s = true" % name, "%s(true)" % name][form % 3]
    forms = ["%s = %s" % (name, value), "%s(%s)" % (name, value),
             '%s = "%s"' % (name, value), '%s("%s")' % (name, value)]
    return forms[form % 4]


def spell_meta(carrier, params):
    """params: list of spelled params"""
    return "%s(%s)" % (carrier, ", ".join(params))
