"""Ord / PartialOrd (C03, cross-variant part C04): lexicographic over the non-ignored fields
in ascending rank (default isize::MIN + index); different variants by declared
discriminant; partial_cmp == Some(cmp) when both are educed."""
from .emit import Unit, hdr, conj, dedup, trait_of
from .model import ISIZE_MIN

COVERS = ["Ord", "PartialOrd"]
OS = "vstd::std_specs::cmp::OrdSpec"
POS = "vstd::std_specs::cmp::PartialOrdSpec"


def visited(v):
    fs = [f for f in v.fields if not f.s("ord", "ignore", False)]
    def rank(f):
        r = f.s("ord", "rank")
        return r if r is not None else ISIZE_MIN + f.idx
    return sorted(fs, key=rank)


def mode(P):
    return P.s("ord", "mode", "both")


def dummy_spec(P, im, tr):
    g, w, _ = hdr(im, P.ty_generic())
    if tr == "PartialOrd":
        return ("impl%s PartialOrdSpecImpl for %s %s {\n    open spec fn obeys_partial_cmp_spec() -> bool { false }\n"
                "    open spec fn partial_cmp_spec(&self, other: &Self) -> Option<Ordering> { None }\n}\n") % (g, im.self_ty, w)
    return ("impl%s OrdSpecImpl for %s %s {\n    open spec fn obeys_cmp_spec() -> bool { false }\n"
            "    open spec fn cmp_spec(&self, other: &Self) -> Ordering { Ordering::Equal }\n}\n") % (g, im.self_ty, w)


def _discr_fn(P, g, wf):
    ds = P.discriminants()
    arms = " ".join("%s => %dint," % (P.pat(v, "_d", only=set()), d) for v, d in zip(P.variants, ds))
    return "pub open spec fn discr%s(p: &%s) -> int %s { match *p { %s } }\n" % (g, P.ty_generic(), wf, arms)


def verus(P, impls, u, prop="C03"):
    md = mode(P)
    ims_o = [im for im in impls if trait_of(im) == "Ord"]
    ims_p = [im for im in impls if trait_of(im) == "PartialOrd"]
    if md == "both" and (len(ims_o) != 1 or len(ims_p) != 1):
        u.skip_verus = "expected one Ord and one PartialOrd impl"
        return u
    if md == "po" and len(ims_p) != 1:
        u.skip_verus = "expected one PartialOrd impl"
        return u
    if not P.variants:
        u.skip_verus = "empty enum: no values"
        return u
    ty = P.ty_generic()
    im = ims_o[0] if md == "both" else ims_p[0]
    g, w, wf = hdr(im, ty)
    partial = md == "po"
    lex, eqv = ("plex2", "Some(Ordering::Equal)") if partial else ("lex2", "Ordering::Equal")
    arms = []
    for v in P.variants:
        e = eqv
        for f in reversed(visited(v)):
            m = f.s("ord", "method")
            if m:
                c = "%s_spec(&x%d, &y%d)" % (m, f.idx, f.idx)
            elif partial:
                c = "%s::partial_cmp_spec(&x%d, &y%d)" % (POS, f.idx, f.idx)
            else:
                c = "%s::cmp_spec(&x%d, &y%d)" % (OS, f.idx, f.idx)
            e = "%s(%s, %s)" % (lex, c, e)
        arms.append("(%s, %s) => %s," % (P.pat(v, "x"), P.pat(v, "y"), e))
    cross = "cmp_int(discr(x), discr(y))"
    if partial:
        cross = "Some(%s)" % cross
    ret = "Option<Ordering>" if partial else "Ordering"
    if P.kind == "enum":
        u.verus_items.append(_discr_fn(P, g, wf))
        arms.append("_ => %s," % cross)
    else:
        arms.append("_ => %s," % eqv)
    u.verus_items.append("pub open spec fn ord_oracle%s(x: &%s, y: &%s) -> %s %s {\n    match (*x, *y) {\n        %s\n    }\n}\n"
                         % (g, ty, ty, ret, wf, "\n        ".join(arms)))
    deleg = dedup([f.ty for v in P.variants for f in visited(v) if not f.s("ord", "method")])
    contract = "ord_oracle(x, y) = match (x, y) { %s }" % " ".join(arms)
    tagp = P.tags.get("prop", prop)
    if partial:
        obeys = conj(["<%s as %s>::obeys_partial_cmp_spec()" % (t, POS) for t in deleg])
        u.verus_items.append(
            "impl%s PartialOrdSpecImpl for %s %s {\n    open spec fn obeys_partial_cmp_spec() -> bool { %s }\n"
            "    open spec fn partial_cmp_spec(&self, other: &Self) -> Option<Ordering> { ord_oracle(self, other) }\n}\n"
            % (g, im.self_ty, w, obeys))
        u.verus_obls["%s::partial_cmp" % P.name] = ("%s/%s/PartialOrd::partial_cmp/ensures" % (tagp, P.pid), contract)
    else:
        obeys = conj(["<%s as %s>::obeys_cmp_spec()" % (t, OS) for t in deleg])
        u.verus_items.append(
            "impl%s OrdSpecImpl for %s %s {\n    open spec fn obeys_cmp_spec() -> bool { %s }\n"
            "    open spec fn cmp_spec(&self, other: &Self) -> Ordering { ord_oracle(self, other) }\n}\n"
            % (g, im.self_ty, w, obeys))
        imp = ims_p[0]
        g2, w2, _ = hdr(imp, ty)
        u.verus_items.append(
            "impl%s PartialOrdSpecImpl for %s %s {\n    open spec fn obeys_partial_cmp_spec() -> bool { %s }\n"
            "    open spec fn partial_cmp_spec(&self, other: &Self) -> Option<Ordering> { Some(ord_oracle(self, other)) }\n}\n"
            % (g2, imp.self_ty, w2, obeys))
        u.verus_obls["%s::cmp" % P.name] = ("%s/%s/Ord::cmp/ensures" % (tagp, P.pid), contract)
        u.verus_obls["%s::partial_cmp" % P.name] = ("%s/%s/PartialOrd::partial_cmp/ensures" % (tagp, P.pid),
                                                     "partial_cmp(x, y) == Some(ord_oracle(x, y))")
        _laws(P, u, g, wf, ty, deleg, tagp)
    return u


def _laws(P, u, g, wf, ty, deleg, prop):
    """cmp is a total order given lawful field comparisons (code-independent lemmas over the oracle)."""
    meths = dedup([(f.s("ord", "method"), f.ty) for v in P.variants for f in visited(v) if f.s("ord", "method")])
    cs = [(t, lambda a, b: "%s::cmp_spec(&%s, &%s)" % (OS, a, b)) for t in deleg]
    cs += [(t, (lambda m: lambda a, b: "%s_spec(&%s, &%s)" % (m, a, b))(m)) for m, t in meths]
    nvis = max([len(visited(v)) for v in P.variants] + [0])
    if nvis > 3 or len(P.variants) > 4:
        return
    h_refl = ["forall|p: %s| %s == Ordering::Equal" % (t, c("p", "p")) for t, c in cs]
    h_anti = ["forall|p: %s, q: %s| #[trigger] %s == ord_rev(%s)" % (t, t, c("p", "q"), c("q", "p")) for t, c in cs]
    h_tr = []
    for t, c in cs:
        h_tr.append("forall|p: %s, q: %s, r: %s| #![trigger %s, %s] %s == Ordering::Less && %s == Ordering::Less ==> %s == Ordering::Less"
                    % (t, t, t, c("p", "q"), c("q", "r"), c("p", "q"), c("q", "r"), c("p", "r")))
        h_tr.append("forall|p: %s, q: %s, r: %s| #![trigger %s, %s] %s == Ordering::Equal ==> %s == %s"
                    % (t, t, t, c("p", "q"), c("q", "r"), c("p", "q"), c("p", "r"), c("q", "r")))
        h_tr.append("forall|p: %s, q: %s, r: %s| #![trigger %s, %s] %s == Ordering::Equal ==> %s == %s"
                    % (t, t, t, c("p", "q"), c("q", "r"), c("q", "r"), c("p", "r"), c("p", "q")))
    def req(hs):
        return ("requires " + ",\n        ".join(hs)) if hs else ""
    u.verus_items.append("proof fn law_ord_refl%s(x: %s) %s\n    %s\n    ensures ord_oracle(&x, &x) == Ordering::Equal {}\n" % (g, ty, wf, req(h_refl)))
    u.verus_items.append("proof fn law_ord_antisym%s(x: %s, y: %s) %s\n    %s\n    ensures ord_oracle(&x, &y) == ord_rev(ord_oracle(&y, &x)) {}\n"
                         % (g, ty, ty, wf, req(h_anti)))
    u.verus_items.append("proof fn law_ord_trans%s(x: %s, y: %s, z: %s) %s\n    %s\n    ensures ord_oracle(&x, &y) == Ordering::Less && ord_oracle(&y, &z) == Ordering::Less ==> ord_oracle(&x, &z) == Ordering::Less {}\n"
                         % (g, ty, ty, ty, wf, req(h_tr)))
    for k in ("refl", "antisym", "trans"):
        u.verus_obls["law_ord_%s" % k] = ("%s/%s/laws/ord_%s" % (prop, P.pid, k), "lemma: ord_oracle is %s given lawful field comparisons" % k)


# ---------------------------------------------------------------------------------
def kani(P, u, prop):
    if not P.variants:
        return
    md = mode(P)
    partial = md == "po"
    tagp = P.tags.get("prop", prop)
    arms = []
    for v in P.variants:
        vs = visited(v)
        stm = []
        for f in vs:
            m = f.s("ord", "method")
            if partial:
                c = "%s(x%d, y%d)" % (m, f.idx, f.idx) if m else "PartialOrd::partial_cmp(x%d, y%d)" % (f.idx, f.idx)
                stm.append("match %s { Some(Ordering::Equal) => {}, o => return o }" % c)
            else:
                c = "%s(x%d, y%d)" % (m, f.idx, f.idx) if m else "Ord::cmp(x%d, y%d)" % (f.idx, f.idx)
                stm.append("match %s { Ordering::Equal => {}, o => return o }" % c)
        fin = "Some(Ordering::Equal)" if partial else "Ordering::Equal"
        arms.append("(%s, %s) => { %s %s }" % (P.pat(v, "x"), P.pat(v, "y"), " ".join(stm), fin))
    ret = "Option<Ordering>" if partial else "Ordering"
    if P.kind == "enum":
        ds = P.discriminants()
        darms = " ".join("%s => %di128," % (P.pat(v, "_d", only=set()), d) for v, d in zip(P.variants, ds))
        u.kani_oracle.append("pub fn discr(p: &TI) -> i128 { match p { %s } }\n" % darms)
        cross = "discr(x).cmp(&discr(y))"
        arms.append("_ => %s," % ("Some(%s)" % cross if partial else cross))
    else:
        arms.append("_ => unreachable!(),")
    u.kani_oracle.append("pub fn ord(x: &TI, y: &TI) -> %s {\n    match (x, y) {\n        %s\n    }\n}\n" % (ret, "\n        ".join(arms)))
    if partial:
        u.kani_harness.append("""
#[kani::proof]
pub fn pcmp_h() { let a = oracle::mk(&mut KaniSrc); let b = oracle::mk(&mut KaniSrc); let r = PartialOrd::partial_cmp(&a, &b); assert!(r == oracle::ord(&a, &b), "contract: partial_cmp(a, b) == oracle::ord(a, b)"); let o9 = oracle::ord(&a, &b); assert!((a < b) == (o9 == Some(Ordering::Less)) && (a <= b) == matches!(o9, Some(Ordering::Less | Ordering::Equal)) && (a > b) == (o9 == Some(Ordering::Greater)) && (a >= b) == matches!(o9, Some(Ordering::Greater | Ordering::Equal)), "contract: <, <=, >, >= agree with partial_cmp"); kani::cover!(true); }
#[kani::proof]
pub fn pcmp_alias_h() { let a = oracle::mk(&mut KaniSrc); let r = PartialOrd::partial_cmp(&a, &a); assert!(r == oracle::ord(&a, &a), "contract: partial_cmp(a, a) through the same reference == oracle::ord(a, a)"); kani::cover!(true); }
""")
        u.kani_obls["pcmp_alias_h"] = ("%s/%s/PartialOrd::partial_cmp/contract(aliased operands)" % (tagp, P.pid), "partial_cmp(&a, &a) == oracle::ord(a, a): the result depends on the values only, not on whether the operands alias")
        if P.tags.get("neighbours"):
            u.kani_harness.append("""
#[repr(C)]
pub struct Wrap { pub pad0: [u8; 3], pub e: TI, pub pad1: [u8; 7] }
#[kani::proof]
pub fn pcmp_nb_h() {
    let a = Wrap { pad0: kani::any(), e: oracle::mk(&mut KaniSrc), pad1: kani::any() };
    let b = Wrap { pad0: kani::any(), e: oracle::mk(&mut KaniSrc), pad1: kani::any() };
    let r = PartialOrd::partial_cmp(&a.e, &b.e);
    assert!(r == oracle::ord(&a.e, &b.e), "contract: partial_cmp does not depend on the bytes next to the value");
    kani::cover!(true);
}
""")
            u.kani_obls["pcmp_nb_h"] = ("%s/%s/PartialOrd::partial_cmp/neighbour-bytes" % (tagp, P.pid), "partial_cmp(&w1.e, &w2.e) == oracle::ord for all neighbour bytes")
        u.kani_obls["pcmp_h"] = ("%s/%s/PartialOrd::partial_cmp/contract" % (tagp, P.pid), "partial_cmp(a, b) == oracle::ord(a, b); <, <=, >, >= agree with it")
        u.replay.append('let a = oracle::mk(s); let b = oracle::mk(s);\n'
                        '    chk(out, "a.partial_cmp(&a)", PartialOrd::partial_cmp(&a, &a), oracle::ord(&a, &a));\n'
                        '    chk(out, "a.partial_cmp(&b)", PartialOrd::partial_cmp(&a, &b), oracle::ord(&a, &b));\n'
                        '    chk(out, "a < b", a < b, oracle::ord(&a, &b) == Some(Ordering::Less));\n'
                        '    chk(out, "a >= b", a >= b, matches!(oracle::ord(&a, &b), Some(Ordering::Greater | Ordering::Equal)));\n'
                        '    chk(out, "a <= b", a <= b, matches!(oracle::ord(&a, &b), Some(Ordering::Less | Ordering::Equal)));')
    else:
        u.kani_harness.append("""
#[kani::proof]
pub fn cmp_h() { let a = oracle::mk(&mut KaniSrc); let b = oracle::mk(&mut KaniSrc); let r = Ord::cmp(&a, &b); assert!(r == oracle::ord(&a, &b), "contract: cmp(a, b) == oracle::ord(a, b)"); kani::cover!(true); }
#[kani::proof]
pub fn cmp_alias_h() { let a = oracle::mk(&mut KaniSrc); let r = Ord::cmp(&a, &a); assert!(r == oracle::ord(&a, &a), "contract: cmp(a, a) through the same reference == oracle::ord(a, a)"); kani::cover!(true); }
""")
        u.kani_obls["cmp_alias_h"] = ("%s/%s/Ord::cmp/contract(aliased operands)" % (tagp, P.pid), "cmp(&a, &a) == oracle::ord(a, a)")
        if md != "ord_only":
            u.kani_harness.append("""
#[kani::proof]
pub fn pcmp_h() { let a = oracle::mk(&mut KaniSrc); let b = oracle::mk(&mut KaniSrc); let r = PartialOrd::partial_cmp(&a, &b); assert!(r == Some(oracle::ord(&a, &b)), "contract: partial_cmp(a, b) == Some(oracle::ord(a, b))"); let o9 = Some(oracle::ord(&a, &b)); assert!((a < b) == (o9 == Some(Ordering::Less)) && (a <= b) == matches!(o9, Some(Ordering::Less | Ordering::Equal)) && (a > b) == (o9 == Some(Ordering::Greater)) && (a >= b) == matches!(o9, Some(Ordering::Greater | Ordering::Equal)), "contract: <, <=, >, >= agree with partial_cmp"); kani::cover!(true); }
""")
        if P.tags.get("neighbours"):
            u.kani_harness.append("""
#[repr(C)]
pub struct Wrap { pub pad0: [u8; 3], pub e: TI, pub pad1: [u8; 7] }
#[kani::proof]
pub fn cmp_nb_h() {
    let a = Wrap { pad0: kani::any(), e: oracle::mk(&mut KaniSrc), pad1: kani::any() };
    let b = Wrap { pad0: kani::any(), e: oracle::mk(&mut KaniSrc), pad1: kani::any() };
    let r = Ord::cmp(&a.e, &b.e);
    assert!(r == oracle::ord(&a.e, &b.e), "contract: cmp does not depend on the bytes next to the value");
    kani::cover!(true);
}
""")
            u.kani_obls["cmp_nb_h"] = ("%s/%s/Ord::cmp/neighbour-bytes" % (tagp, P.pid), "cmp(&w1.e, &w2.e) == oracle::ord for all neighbour bytes in a #[repr(C)] wrapper")
        u.kani_obls["cmp_h"] = ("%s/%s/Ord::cmp/contract" % (tagp, P.pid), "cmp(a, b) == oracle::ord(a, b)")
        if md != "ord_only":
            u.kani_obls["pcmp_h"] = ("%s/%s/PartialOrd::partial_cmp/contract" % (tagp, P.pid), "partial_cmp(a, b) == Some(oracle::ord(a, b)); <, <=, >, >= agree with it")
        u.replay.append('let a = oracle::mk(s); let b = oracle::mk(s);\n'
                        '    chk(out, "a.cmp(&b)", Ord::cmp(&a, &b), oracle::ord(&a, &b));\n'
                        '    chk(out, "a.cmp(&a)", Ord::cmp(&a, &a), oracle::ord(&a, &a));' + ('' if md == "ord_only" else
                        '\n    chk(out, "a.partial_cmp(&b)", PartialOrd::partial_cmp(&a, &b), Some(oracle::ord(&a, &b)));'
                        '\n    chk(out, "a >= b", a >= b, oracle::ord(&a, &b) != Ordering::Less); chk(out, "a <= b", a <= b, oracle::ord(&a, &b) != Ordering::Greater);'
                        '\n    chk(out, "a < b", a < b, oracle::ord(&a, &b) == Ordering::Less); chk(out, "a > b", a > b, oracle::ord(&a, &b) == Ordering::Greater);'))
    if len(P.variants) > 64:
        # the four operators each re-run the whole comparison: 2-3 minutes per harness in CBMC for 130-140 variants; the
        # operator assertions are independent of the variant count and stay on every smaller member
        import re
        u.kani_harness = [re.sub(r' let o9 = .*?agree with partial_cmp"\);', "", h, flags=re.S) for h in u.kani_harness]
