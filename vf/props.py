"""Property registry: family, engines, bounds, trusted base per property."""
from . import families

TRUSTED_COMMON = [
    "rustc macro expansion and -Zunpretty=expanded print the proc-macro's tokens faithfully",
    "Verus 0.2026.09.13 / Z3; vstd specs for core impls on primitives",
    "Kani 0.68 / CBMC 6.11 memory model",
    "the splitter (vf/rs.py) and the oracle generator (vf/t_*.py), cross-checked by must-fail canaries each run",
]
ASSUMPTIONS_COMMON = [
    "program quantifier is enumerated (family bounds in coverage.family), value quantifier is proved",
    "custom methods are external_body with uninterpreted specs (Verus) / fixed asymmetric functions (Kani)",
    "isize/usize width abstract in Verus, 64-bit in Kani",
]


def _c02(tier, seed):
    ps = families.c02(tier, seed)
    return ps + families.canaries_eq(ps)


PROPS = {
    "C02": {
        "family": _c02,
        "bounds": {"quick": "structs named/tuple n<=3 all 3^n {none,ignore,method} assignments; enums 1-3 variants over {unit,tuple1,tuple2,named2}",
                   "thorough": "structs n<=4 exhaustive; +120 sampled enums with 3-5 variants, m<=3"},
        "trusted": [], "assumptions": [],
        "explanation": "generated PartialEq::eq verified verbatim (Verus, generic field types) against the field-wise oracle; Kani on the real derive for concrete twins incl. f32 NaN",
    },
}
