"""Program families per property (the bounded dimension; bounds stated in DESIGN §4)."""
import itertools, random
from .model import Field, Variant, Program, spell_param, ISIZE_MIN

KANI_TYS = ["u8", "f32", "bool", "i8", "u16"]
NAMES = ["a", "b", "c", "d", "e", "f"]
# hostile-but-legal identifiers that coincide with names the generated code uses
HOSTILE = ["other", "state", "f", "builder", "source", "_0", "v", "r"]


class Counter:
    def __init__(self):
        self.n = 0

    def pid(self):
        self.n += 1
        return "p%04d" % self.n


def inst_for(generics, tys=KANI_TYS, rot=0):
    return {g: tys[(i + rot) % len(tys)] for i, g in enumerate(generics)}


# ---------------------------------------------------------------------------------
# attribute spelling for the ignore/method/rank style traits
def spell_field(carrier, sem, form):
    """sem: dict(ignore, method, rank) -> spelled meta or None"""
    ps = []
    if sem.get("ignore"):
        if form % 4 == 3 and not sem.get("method") and sem.get("rank") is None:
            return "%s = false" % carrier
        ps.append(spell_param("ignore", True, form))
    if sem.get("method"):
        ps.append(spell_param("method", sem["method"], form // 2))
    if sem.get("rank") is not None:
        r = sem["rank"]
        # `rank = -1`, `rank(-1)`, `rank = "-1"`... string form only for quick variety
        ps.append(spell_param("rank", str(r), form))
    if not ps:
        return None
    if form % 2 == 1:
        ps.reverse()
    return "%s(%s)" % (carrier, ", ".join(ps))


def mk_struct(pid, shape, fields, traits, focus, generics, note="", **kw):
    v = Variant(None, shape, fields)
    return Program(pid, "struct", "S", [v], traits, generics=generics, inst=inst_for(generics, rot=len(fields)),
                   focus=focus, note=note, **kw)


# ---------------------------------------------------------------------------------
# C02
EQ_METHODS = ["crate::m::eq_a", "crate::m::eq_b"]


def eq_fields(shape, assign, form, carrier, names=NAMES):
    """assign: tuple over {'n','i','m'} ; returns (fields, generics)"""
    fields, generics = [], []
    for i, a in enumerate(assign):
        sem = {"ignore": a == "i", "method": EQ_METHODS[i % 2] if a == "m" else None}
        if a == "m":
            ty = "u8"
        else:
            ty = "T%d" % len(generics)
            generics.append(ty)
        sp = spell_field(carrier, sem, form + i)
        fields.append(Field(names[i] if shape == "named" else None, ty, attrs=[sp] if sp else [], eq=sem))
    return fields, generics


def c02(tier, seed):
    rnd = random.Random(seed)
    c = Counter()
    out = []
    maxn = 3 if tier == "quick" else 4
    form = 0
    for shape in ("named", "tuple"):
        for n in range(0, maxn + 1):
            for assign in itertools.product("nim", repeat=n):
                form += 1
                with_eq = form % 3 == 0
                carrier = "Eq" if (with_eq and form % 2 == 0) else "PartialEq"
                names = HOSTILE if form % 5 == 0 else NAMES
                fields, generics = eq_fields(shape, assign, form, carrier, names)
                traits = ["PartialEq"] + (["Eq"] if with_eq else [])
                if form % 7 == 0:
                    traits.reverse()
                out.append(mk_struct(c.pid(), shape if n else ("named" if shape == "named" else "tuple"), fields, traits,
                                     {"PartialEq"}, generics,
                                     note="struct %s eq=%s carrier=%s" % (shape, "".join(assign) or "-", carrier)))
    out.append(mk_struct(c.pid(), "unit", [], ["PartialEq"], {"PartialEq"}, [], note="unit struct"))
    # enums
    kinds = {"u": ("unit", 0), "t1": ("tuple", 1), "t2": ("tuple", 2), "n2": ("named", 2), "n3": ("named", 3), "t3": ("tuple", 3)}
    combos = [(a,) for a in ("u", "t1", "t2", "n2")] + list(itertools.product(("u", "t1", "t2", "n2"), repeat=2))
    combos += [("u", "t1", "n2"), ("t2", "t2", "u"), ("n2", "n2", "n2"), ("u", "u", "u"), ("t1", "t1", "t1"), ("n2", "u", "t2"),
               ("t1", "n2", "t2"), ("t2", "u", "n2"), ("n2", "t1", "u"), ("u", "t2", "t1"), ("t1", "u", "u"), ("n3", "t3", "u")]
    if tier != "quick":
        combos += [tuple(rnd.choice(list(kinds)) for _ in range(rnd.choice((3, 4, 5)))) for _ in range(120)]
    for ci, combo in enumerate(combos):
        form += 1
        with_eq = form % 3 == 0
        carrier = "Eq" if (with_eq and form % 2 == 0) else "PartialEq"
        generics = []
        variants = []
        pos = 0
        for vi, k in enumerate(combo):
            kind, m = kinds[k]
            fs = []
            for j in range(m):
                pos += 1
                # one non-trivial assignment per position, rotating
                a = "nim"[(pos + ci) % 3] if (pos + ci) % 2 == 0 else "n"
                if tier != "quick":
                    a = rnd.choice("nnim")
                sem = {"ignore": a == "i", "method": EQ_METHODS[pos % 2] if a == "m" else None}
                if a == "m":
                    ty = "u8"
                else:
                    ty = "T%d" % (len(generics) % 3)
                    if ty not in generics:
                        generics.append(ty)
                sp = spell_field(carrier, sem, form + pos)
                fs.append(Field(NAMES[j] if kind == "named" else None, ty, attrs=[sp] if sp else [], eq=sem))
            variants.append(Variant("V%d" % vi, kind, fs))
        traits = ["PartialEq"] + (["Eq"] if with_eq else [])
        P = Program(c.pid(), "enum", "E", variants, traits, generics=generics, inst=inst_for(generics, rot=ci),
                    focus={"PartialEq"}, note="enum %s carrier=%s" % ("/".join(combo), carrier))
        out.append(P)
    return out


def canaries_eq(programs):
    """must-fail twins: one compared field dropped from the oracle / an ignored field added"""
    out = []
    picks = [p for p in programs if any(not f.s("eq", "ignore") for v in p.variants for f in v.fields)]
    for P in picks[3:4] + picks[-2:-1]:
        Q = P.clone()
        Q.pid = P.pid + "_canary"
        Q.canary_of = P.pid
        for v in Q.variants:
            for f in v.fields:
                if not f.s("eq", "ignore"):
                    f.sem["eq"] = dict(f.sem.get("eq", {}), ignore=True)
                    break
            else:
                continue
            break
        Q.note = "CANARY (oracle drops a compared field) of " + P.pid
        out.append(Q)
    return out
