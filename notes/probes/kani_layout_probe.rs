#![allow(dead_code)]
use educe::Educe;
use core::cmp::Ordering;

#[derive(Educe, Clone, Copy)]
#[educe(PartialEq, Eq, PartialOrd, Ord)]
pub enum Z { A }

#[derive(Educe, Clone, Copy)]
#[educe(PartialEq, Eq, PartialOrd, Ord)]
pub enum Two { A, B }
#[repr(C)] pub struct W { e: Two, pad: [u8; 3] }

#[derive(Educe, Clone, Copy)]
#[educe(PartialEq, PartialOrd)]
pub struct Fl { a: f32, #[educe(PartialOrd(rank = -5))] b: u8 }

#[derive(Educe, Clone, Copy)]
#[educe(PartialEq, Eq, PartialOrd, Ord)]
pub enum Big { A = 1000, B = -2, C = 40000 }

#[cfg(kani)]
mod proofs {
    use super::*;
    #[kani::proof]
    fn p_z() { let a = Z::A; let b = Z::A; assert!(a.cmp(&b) == Ordering::Equal); kani::cover!(true); }
    #[kani::proof]
    fn p_w() { 
        let mk = |b: bool| if b { Two::A } else { Two::B };
        let w1 = W { e: mk(kani::any()), pad: kani::any() }; let w2 = W { e: mk(kani::any()), pad: kani::any() };
        let d = |e: &Two| match e { Two::A => 0, Two::B => 1 };
        assert!(w1.e.cmp(&w2.e) == d(&w1.e).cmp(&d(&w2.e))); }
    #[kani::proof]
    fn p_fl() { let x = Fl { a: kani::any(), b: kani::any() }; let y = Fl { a: kani::any(), b: kani::any() };
        let spec = match x.b.partial_cmp(&y.b) { Some(Ordering::Equal) => x.a.partial_cmp(&y.a), o => o };
        assert!(x.partial_cmp(&y) == spec); }
    #[kani::proof]
    fn p_big() { 
        let mk = |b: u8| match b % 3 { 0 => Big::A, 1 => Big::B, _ => Big::C };
        let d = |e: &Big| match e { Big::A => 1000, Big::B => -2, Big::C => 40000 };
        let a = mk(kani::any()); let b = mk(kani::any());
        assert!(a.cmp(&b) == d(&a).cmp(&d(&b))); }
}
