use vstd::prelude::*;
verus! {
pub uninterp spec fn h_tr<H>(h: &H) -> int;
pub uninterp spec fn h_push(t: int, item: int) -> int;
pub uninterp spec fn hv_u8(v: u8) -> int;
pub uninterp spec fn hv_k(v: K) -> int;
pub assume_specification<H> [<u8 as std::hash::Hash>::hash] (v: &u8, st: &mut H)
    where H: std::hash::Hasher,
    ensures h_tr(final(st)) == h_push(h_tr(old(st)), hv_u8(*v));

pub struct K(pub u64);
impl core::hash::Hash for K {
    #[verifier::external_body]
    fn hash<H: core::hash::Hasher>(&self, state: &mut H) 
        ensures h_tr(final(state)) == h_push(h_tr(old(state)), hv_k(*self))
    { unimplemented!() }
}
// custom method
pub uninterp spec fn mh_spec(v: u8) -> int;
#[verifier::external_body]
fn mh<H: core::hash::Hasher>(v: &u8, state: &mut H) ensures h_tr(final(state)) == h_push(h_tr(old(state)), mh_spec(*v)) { unimplemented!() }

pub struct G { pub a: K, pub b: u8, pub c: u8 }
impl ::core::hash::Hash for G where K: ::core::hash::Hash, u8: ::core::hash::Hash {
    #[inline]
    fn hash<H: ::core::hash::Hasher>(&self, state: &mut H) 
      ensures h_tr(final(state)) == h_push(h_push(h_push(h_tr(old(state)), hv_k(self.a)), hv_u8(self.b)), mh_spec(self.c))
    {
        ::core::hash::Hash::hash(&self.a, state);
        ::core::hash::Hash::hash(&self.b, state);
        mh(&self.c, state);
    }
}
}
fn main() {}
