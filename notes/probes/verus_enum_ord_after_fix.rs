use vstd::prelude::*;
use vstd::std_specs::cmp::{PartialEqSpecImpl,OrdSpecImpl,PartialOrdSpecImpl,OrdSpec,PartialOrdSpec,PartialEqSpec};
use core::cmp::Ordering;
verus! {
pub open spec fn lex2(x: Ordering, y: Ordering) -> Ordering { if x == Ordering::Equal { y } else { x } }
pub open spec fn cmp_int(a: int, b: int) -> Ordering { if a < b { Ordering::Less } else if a == b { Ordering::Equal } else { Ordering::Greater } }
pub mod p0001 {
    use super::*;
    pub enum E<T0> { A(T0), B, C{x: T0}, D }
    pub open spec fn discr<T0>(p: &E<T0>) -> int { match *p { E::A(..) => -3, E::B => -2, E::C{..} => 200, E::D => 201 } }
    pub open spec fn e_cmp<T0: Ord>(a: &E<T0>, b: &E<T0>) -> Ordering {
        match (*a, *b) {
            (E::A(a0), E::A(b0)) => a0.cmp_spec(&b0),
            (E::C{x: ax}, E::C{x: bx}) => ax.cmp_spec(&bx),
            _ => cmp_int(discr(a), discr(b)),
        }
    }
    impl<T0: PartialEq> PartialEqSpecImpl for E<T0> { open spec fn obeys_eq_spec() -> bool { false } open spec fn eq_spec(&self, other: &Self) -> bool { true } }
    impl<T0: PartialEq> PartialEq for E<T0> { fn eq(&self, other: &Self) -> bool { true } }
    impl<T0: Eq> Eq for E<T0> {}
    impl<T0: Ord> PartialOrdSpecImpl for E<T0> { open spec fn obeys_partial_cmp_spec() -> bool { false } open spec fn partial_cmp_spec(&self, other: &Self) -> Option<Ordering> { None } }
    impl<T0: Ord> PartialOrd for E<T0> { fn partial_cmp(&self, other: &Self) -> Option<Ordering> { None } }
    impl<T0: Ord> OrdSpecImpl for E<T0> {
        open spec fn obeys_cmp_spec() -> bool { T0::obeys_cmp_spec() }
        open spec fn cmp_spec(&self, other: &Self) -> Ordering { e_cmp(self, other) }
    }
    impl<T0> ::core::cmp::Ord for E<T0> where T0: ::core::cmp::Ord,
        T0: ::core::cmp::Ord, Self: ::core::cmp::Eq {
        #[inline]
        fn cmp(&self, other: &Self) -> ::core::cmp::Ordering {
            match ::core::cmp::Ord::cmp(&match self {
                            Self::A { .. } => ((-3) as i16) + 0,
                            Self::B { .. } => ((-3) as i16) + 1,
                            Self::C { .. } => ((200) as i16) + 0,
                            Self::D { .. } => ((200) as i16) + 1,
                        },
                    &match other {
                            Self::A { .. } => ((-3) as i16) + 0,
                            Self::B { .. } => ((-3) as i16) + 1,
                            Self::C { .. } => ((200) as i16) + 0,
                            Self::D { .. } => ((200) as i16) + 1,
                        }) {
                ::core::cmp::Ordering::Equal => {
                    match self {
                        Self::A(_0) => {
                            if let Self::A(__0) = other {
                                match ::core::cmp::Ord::cmp(_0, __0) {
                                    ::core::cmp::Ordering::Equal => (),
                                    ::core::cmp::Ordering::Greater =>
                                        return ::core::cmp::Ordering::Greater,
                                    ::core::cmp::Ordering::Less =>
                                        return ::core::cmp::Ordering::Less,
                                }
                            }
                        }
                        Self::B => { return ::core::cmp::Ordering::Equal; }
                        Self::C { x: _s_x } => {
                            if let Self::C { x: _o_x } = other {
                                match ::core::cmp::Ord::cmp(_s_x, _o_x) {
                                    ::core::cmp::Ordering::Equal => (),
                                    ::core::cmp::Ordering::Greater =>
                                        return ::core::cmp::Ordering::Greater,
                                    ::core::cmp::Ordering::Less =>
                                        return ::core::cmp::Ordering::Less,
                                }
                            }
                        }
                        Self::D => { return ::core::cmp::Ordering::Equal; }
                    }
                    ::core::cmp::Ordering::Equal
                }
                ::core::cmp::Ordering::Greater =>
                    ::core::cmp::Ordering::Greater,
                ::core::cmp::Ordering::Less => ::core::cmp::Ordering::Less,
            }
        }
    }
}
}
fn main() {}
