#!/bin/sh
# run every registered quick (or $1) check; print one summary line each
cd "$(dirname "$0")/.."
mkdir -p work
tier=${1:-quick}; shift
extra="$@"
for p in $(python3 -c "import json;print(' '.join(c['property_id'] for c in json.load(open('MANIFEST.json'))['checks']))"); do
  ./check $p --tier $tier $extra > work/$p.out 2> work/$p.err; rc=$?
  echo "$p rc=$rc $(grep -c VIOLATION work/$p.out) violations | $(tail -1 work/$p.err)"
done
