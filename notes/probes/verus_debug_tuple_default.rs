use vstd::prelude::*;
verus! {
#[verifier::external_type_specification]
#[verifier::external_body]
pub struct ExDebugTuple<'a, 'b: 'a>(core::fmt::DebugTuple<'a, 'b>);

pub struct Tr(pub int);
pub uninterp spec fn f_state(f: &core::fmt::Formatter<'_>) -> int;
pub uninterp spec fn wr(st: int, s: Seq<char>) -> core::fmt::Result;
pub uninterp spec fn tt_start(st: int, name: Seq<char>) -> Tr;
pub uninterp spec fn tt_field(t: Tr, v: int) -> Tr;
pub uninterp spec fn dt_trace(d: &core::fmt::DebugTuple<'_, '_>) -> Tr;
pub uninterp spec fn tfin(t: Tr) -> core::fmt::Result;
pub uninterp spec fn dyn_id(v: &dyn core::fmt::Debug) -> int;

pub assume_specification<'a> [core::fmt::Formatter::<'a>::write_str] (f: &mut core::fmt::Formatter<'a>, s: &str) -> (r: core::fmt::Result)
    ensures r == wr(f_state(old(f)), s@);
pub assume_specification<'a, 'b> [core::fmt::Formatter::<'a>::debug_tuple] (f: &'b mut core::fmt::Formatter<'a>, name: &str) -> (r: core::fmt::DebugTuple<'b, 'a>)
    ensures dt_trace(&r) == tt_start(f_state(old(f)), name@);
pub assume_specification<'a, 'b, 'c> [core::fmt::DebugTuple::<'a, 'b>::field] (d: &'c mut core::fmt::DebugTuple<'a, 'b>, v: &dyn core::fmt::Debug) -> (r: &'c mut core::fmt::DebugTuple<'a, 'b>)
    where 'b: 'a,
    ensures dt_trace(final(d)) == tt_field(dt_trace(old(d)), dyn_id(v));
pub assume_specification<'a, 'b> [core::fmt::DebugTuple::<'a, 'b>::finish] (d: &mut core::fmt::DebugTuple<'a, 'b>) -> (r: core::fmt::Result)
    where 'b: 'a,
    ensures r == tfin(dt_trace(old(d)));

pub mod p0001 {
    use super::*;
    pub enum E<T0, T1> { A, B(T0, T1), D{y: T1, z: T0} }
    impl<T0, T1> ::core::fmt::Debug for E<T0, T1> where
        T0: ::core::fmt::Debug, T1: ::core::fmt::Debug, T0: ::core::fmt::Debug
        {
        #[inline]
        fn fmt(&self, f: &mut ::core::fmt::Formatter) -> (r: ::core::fmt::Result) 
          ensures r == (match self { 
              E::A => wr(f_state(old(f)), "E::A"@),
              E::B(_0, _1) => tfin(tt_field(tt_start(f_state(old(f)), "E::BB"@), dyn_id(_0))),
              E::D{y, z} => tfin(tt_field(tt_field(tt_start(f_state(old(f)), "E::D"@), dyn_id(y)), dyn_id(z))),
          })
        {
            match self {
                Self::A => f.write_str("E::A"),
                Self::B(_0, _) => {
                    let mut builder = f.debug_tuple("E::BB");
                    builder.field(_0);
                    builder.finish()
                }
                Self::D { y: _y, z: _z } => {
                    let mut builder = f.debug_tuple("E::D");
                    builder.field(_y);
                    builder.field(_z);
                    builder.finish()
                }
            }
        }
    }
}
pub mod p0002 {
    pub struct S { pub a: u16, pub b: u32, pub c: bool }
    impl ::core::default::Default for S where bool: ::core::default::Default {
        #[inline]
        fn default() -> (r: Self) ensures r == (S { a: 5, b: 7, c: false }) {
            Self {
                a: 5,
                b: ::core::convert::Into::into(7u8),
                c: <bool as ::core::default::Default>::default(),
            }
        }
    }
    impl S where bool: ::core::default::Default {
        #[doc = r#" Returns the "default value" for a type."#]
        #[inline]
        pub fn new() -> (r: Self) ensures r == (S { a: 5, b: 7, c: false }) { <Self as ::core::default::Default>::default() }
    }
}
}
fn main() {}
