"""Fixed texts shared by every family: the custom-method module (`crate::m`) in its
executable form (native + Kani) and in its contract form (Verus: external_body with
uninterpreted spec functions), the input-source abstraction used by harness and
replay, and the Verus prelude with the assumed contracts on dependencies."""

# --------------------------------------------------------------------------------
# executable custom methods.  Deliberately asymmetric / lossy so that argument order,
# once-ness and "method instead of the type's own trait" are all observable.
M_RS = r'''
use core::cmp::Ordering;
use core::hash::{Hash, Hasher};
pub fn eq_a(a: &u8, b: &u8) -> bool { (a & 3) <= (b & 3) }
pub fn eq_b(a: &u8, b: &u8) -> bool { a >> 1 == b >> 1 }
/// address-sensitive comparison: true only for the very same storage
pub fn eq_addr(a: &u8, b: &u8) -> bool { core::ptr::eq(a, b) }
pub fn cmp_a(a: &u8, b: &u8) -> Ordering { (a & 3).cmp(&(b >> 6)) }
pub fn cmp_b(a: &u8, b: &u8) -> Ordering { (b >> 1).cmp(&(a >> 1)) }
pub fn pcmp_a(a: &u8, b: &u8) -> Option<Ordering> { if *a == 255 || *b == 254 { None } else { Some((a & 3).cmp(&(b >> 6))) } }
pub fn pcmp_b(a: &u8, b: &u8) -> Option<Ordering> { Some((b >> 1).cmp(&(a >> 1))) }
pub fn hash_a<H: Hasher>(a: &u8, h: &mut H) { h.write_u8(*a & 3); h.write_u8(0xA5) }
pub fn hash_b<H: Hasher>(a: &u8, h: &mut H) { h.write_u16((*a as u16) >> 1) }
/// calls of the custom clone methods since the last ctr_reset()
pub static mut MCALLS: u8 = 0;
pub fn clone_a(a: &u8) -> u8 { unsafe { MCALLS = MCALLS.wrapping_add(1); } a.wrapping_add(1) }
pub fn clone_b(a: &u8) -> u8 { unsafe { MCALLS = MCALLS.wrapping_add(1); } a ^ 0x55 }
pub fn mcalls() -> u8 { unsafe { MCALLS } }
/// a custom clone method whose PATH ends in `clone` (it is not the trait method)
pub mod alt { pub fn clone(a: &u8) -> u8 { unsafe { super::MCALLS = super::MCALLS.wrapping_add(1); } a.wrapping_add(7) } }
/// an impure default expression: a fresh id per evaluation (evaluating it twice is observable)
pub static mut NEXT_ID: u8 = 0;
pub fn next_id() -> u8 { unsafe { let v = NEXT_ID; NEXT_ID = NEXT_ID.wrapping_add(1); v } }
pub fn id_reset() { unsafe { NEXT_ID = 0; } }
/// free functions whose names also occur as field names (a field binding must not capture the call)
pub fn handler() -> u8 { 7 }
pub fn quiet() -> u8 { 9 }
/// a conversion method that takes a marker field
pub fn into_ph(_a: core::marker::PhantomData<u16>) -> u32 { 1000 }
/// a conversion method generic over its result: it type-checks for every integer target
pub fn into_g<T: From<u8>>(a: u8) -> T { T::from(a / 2) }
pub fn into_a(a: u8) -> u16 { a as u16 + 1000 }
pub fn into_b(a: u8) -> u32 { ((a as u32) << 2) | 1 }
pub fn into_c(a: u16) -> u16 { a ^ 0x00ff }
pub fn fmt_a(a: &u8, f: &mut core::fmt::Formatter<'_>) -> core::fmt::Result { f.write_str(if *a & 1 == 0 { "even" } else { "odd" }) }
pub fn fmt_b(a: &u8, f: &mut core::fmt::Formatter<'_>) -> core::fmt::Result { f.write_str("<b>") }
/// generic over the value type: prints the size of the type it was instantiated with (1 for a u8 field)
pub fn fmt_g<T>(_a: &T, f: &mut core::fmt::Formatter<'_>) -> core::fmt::Result { f.write_str(["S0", "S1", "S2", "S3", "S4", "S5", "S6", "S7", "S8"][core::mem::size_of::<T>().min(8)]) }

/// abstract key type used where Verus needs a non-generic field type with its own
/// (uninterpreted) Hash; natively an ordinary newtype.
#[derive(Clone, Copy, PartialEq, Eq, PartialOrd, Ord, Debug, Default)]
pub struct K(pub u64);
impl Hash for K { fn hash<H: Hasher>(&self, h: &mut H) { h.write_u64(self.0 ^ 0x5a5a) } }

/// field type whose own Clone::clone is counted per slot ID (once-ness of clone())
pub static mut CTR: [u8; 6] = [0; 6];
#[derive(PartialEq, Debug)]
pub struct Ctr<const ID: usize>(pub u8);
impl<const ID: usize> Clone for Ctr<ID> {
    fn clone(&self) -> Self { unsafe { CTR[ID] = CTR[ID].wrapping_add(1); } Ctr(self.0) }
}
impl<const ID: usize> Copy for Ctr<ID> {}
pub fn ctr_reset() { unsafe { CTR = [0; 6]; MCALLS = 0; } }
pub fn ctr_counts() -> [u8; 6] { unsafe { CTR } }

pub type Off = i64;
pub type Flt = f64;
pub const HIGH: u8 = 200;

/// adversarial field type: it has INHERENT methods with the names of the trait methods the generated code
/// calls (clone, eq, cmp, hash, default, into, fmt, ...), each doing the wrong thing, next to correct trait
/// impls.  Generated code must reach the trait items (fully qualified paths), never these.
#[derive(Debug)]
pub struct Adv(pub u8);
impl Adv {
    pub fn clone(&self) -> Adv { Adv(self.0 ^ 0xff) }
    pub fn clone_from(&mut self, _s: &Adv) { self.0 = 0xEE; }
    pub fn eq(&self, _o: &Adv) -> bool { false }
    pub fn ne(&self, _o: &Adv) -> bool { false }
    pub fn cmp(&self, _o: &Adv) -> Ordering { Ordering::Less }
    pub fn partial_cmp(&self, _o: &Adv) -> Option<Ordering> { None }
    pub fn hash<H: Hasher>(&self, h: &mut H) { h.write_u8(0xEE) }
    pub const fn default() -> Adv { Adv(7) }
    pub fn into(self) -> u32 { 700 }
    pub fn fmt(&self, f: &mut core::fmt::Formatter<'_>) -> core::fmt::Result { f.write_str("WRONG") }
}
impl Clone for Adv { fn clone(&self) -> Self { Adv(self.0) } }
impl Copy for Adv {}
impl PartialEq for Adv { fn eq(&self, o: &Self) -> bool { self.0 == o.0 } }
impl Eq for Adv {}
impl PartialOrd for Adv { fn partial_cmp(&self, o: &Self) -> Option<Ordering> { Some(self.0.cmp(&o.0)) } }
impl Ord for Adv { fn cmp(&self, o: &Self) -> Ordering { self.0.cmp(&o.0) } }
impl Hash for Adv { fn hash<H: Hasher>(&self, h: &mut H) { h.write_u8(self.0) } }
impl Default for Adv { fn default() -> Self { Adv(1) } }
impl From<Adv> for u32 { fn from(a: Adv) -> u32 { a.0 as u32 } }
/// newtype reachable from an integer literal only through Into
#[derive(Clone, Copy, PartialEq, Eq, Debug, Default)]
pub struct W(pub i32);
impl From<i32> for W { fn from(v: i32) -> Self { W(v.wrapping_mul(2)) } }

/// reachable from integer literals of several types: which From impl runs depends on the literal's own type (its suffix)
#[derive(Clone, Copy, PartialEq, Eq, Debug)]
pub enum Num { U8(u8), U16(u16), I32(i32), None }
impl Default for Num { fn default() -> Self { Num::None } }
impl From<u8> for Num { fn from(v: u8) -> Self { Num::U8(v) } }
impl From<u16> for Num { fn from(v: u16) -> Self { Num::U16(v) } }
impl From<i32> for Num { fn from(v: i32) -> Self { Num::I32(v) } }

#[derive(Clone, Copy, PartialEq, Eq, PartialOrd, Ord, Debug)]
pub enum Nest { X, Y }

/// partially ordered byte: 255 is incomparable with everything (NaN-like)
#[derive(Clone, Copy, Debug, PartialEq)]
pub struct Inc(pub u8);
impl PartialOrd for Inc {
    fn partial_cmp(&self, o: &Self) -> Option<Ordering> {
        if self.0 == 255 || o.0 == 255 { None } else { Some(self.0.cmp(&o.0)) }
    }
}
'''

# Verus contract form of the same module.
M_VERUS = r'''
pub mod m {
    use super::*;
    pub uninterp spec fn eq_a_spec(a: &u8, b: &u8) -> bool;
    #[verifier::external_body]
    pub fn eq_a(a: &u8, b: &u8) -> (r: bool) ensures r == eq_a_spec(a, b) { unimplemented!() }
    pub uninterp spec fn eq_b_spec(a: &u8, b: &u8) -> bool;
    #[verifier::external_body]
    pub fn eq_b(a: &u8, b: &u8) -> (r: bool) ensures r == eq_b_spec(a, b) { unimplemented!() }
    pub uninterp spec fn cmp_a_spec(a: &u8, b: &u8) -> Ordering;
    #[verifier::external_body]
    pub fn cmp_a(a: &u8, b: &u8) -> (r: Ordering) ensures r == cmp_a_spec(a, b) { unimplemented!() }
    pub uninterp spec fn cmp_b_spec(a: &u8, b: &u8) -> Ordering;
    #[verifier::external_body]
    pub fn cmp_b(a: &u8, b: &u8) -> (r: Ordering) ensures r == cmp_b_spec(a, b) { unimplemented!() }
    pub uninterp spec fn pcmp_a_spec(a: &u8, b: &u8) -> Option<Ordering>;
    #[verifier::external_body]
    pub fn pcmp_a(a: &u8, b: &u8) -> (r: Option<Ordering>) ensures r == pcmp_a_spec(a, b) { unimplemented!() }
    pub uninterp spec fn pcmp_b_spec(a: &u8, b: &u8) -> Option<Ordering>;
    #[verifier::external_body]
    pub fn pcmp_b(a: &u8, b: &u8) -> (r: Option<Ordering>) ensures r == pcmp_b_spec(a, b) { unimplemented!() }
    pub uninterp spec fn hash_a_spec(a: u8) -> int;
    #[verifier::external_body]
    pub fn hash_a<H: core::hash::Hasher>(a: &u8, h: &mut H) ensures h_tr(final(h)) == h_push(h_tr(old(h)), hash_a_spec(*a)) { unimplemented!() }
    pub uninterp spec fn hash_b_spec(a: u8) -> int;
    #[verifier::external_body]
    pub fn hash_b<H: core::hash::Hasher>(a: &u8, h: &mut H) ensures h_tr(final(h)) == h_push(h_tr(old(h)), hash_b_spec(*a)) { unimplemented!() }
    pub uninterp spec fn clone_a_spec(a: u8) -> u8;
    #[verifier::external_body]
    pub fn clone_a(a: &u8) -> (r: u8) ensures r == clone_a_spec(*a) { unimplemented!() }
    pub uninterp spec fn clone_b_spec(a: u8) -> u8;
    #[verifier::external_body]
    pub fn clone_b(a: &u8) -> (r: u8) ensures r == clone_b_spec(*a) { unimplemented!() }
    pub mod alt {
        use vstd::prelude::*;
        verus! {
        pub uninterp spec fn clone_spec(a: u8) -> u8;
        #[verifier::external_body]
        pub fn clone(a: &u8) -> (r: u8) ensures r == clone_spec(*a) { unimplemented!() }
        }
    }
    pub uninterp spec fn into_a_spec(a: u8) -> u16;
    #[verifier::external_body]
    pub fn into_a(a: u8) -> (r: u16) ensures r == into_a_spec(a) { unimplemented!() }
    pub uninterp spec fn into_b_spec(a: u8) -> u32;
    #[verifier::external_body]
    pub fn into_b(a: u8) -> (r: u32) ensures r == into_b_spec(a) { unimplemented!() }
    pub uninterp spec fn into_c_spec(a: u16) -> u16;
    #[verifier::external_body]
    pub fn into_c(a: u16) -> (r: u16) ensures r == into_c_spec(a) { unimplemented!() }

    pub type Off = i64;
    pub uninterp spec fn fmt_a_spec(v: u8, st: int) -> core::fmt::Result;
    pub open spec fn mid_fmt_a() -> int { 1 }
    #[verifier::external_body]
    pub fn fmt_a(a: &u8, f: &mut core::fmt::Formatter<'_>) -> (r: core::fmt::Result) ensures r == fmt_a_spec(*a, f_state(old(f))) { unimplemented!() }
    pub uninterp spec fn fmt_b_spec(v: u8, st: int) -> core::fmt::Result;
    pub open spec fn mid_fmt_b() -> int { 2 }
    #[verifier::external_body]
    pub fn fmt_b(a: &u8, f: &mut core::fmt::Formatter<'_>) -> (r: core::fmt::Result) ensures r == fmt_b_spec(*a, f_state(old(f))) { unimplemented!() }
    pub uninterp spec fn fmt_g_spec<T>(v: T, st: int) -> core::fmt::Result;
    pub open spec fn mid_fmt_g() -> int { 3 }
    #[verifier::external_body]
    pub fn fmt_g<T>(a: &T, f: &mut core::fmt::Formatter<'_>) -> (r: core::fmt::Result) ensures r == fmt_g_spec(*a, f_state(old(f))) { unimplemented!() }
    pub struct Adv(pub u8);
    impl core::hash::Hash for Adv {
        #[verifier::external_body]
        fn hash<H: core::hash::Hasher>(&self, state: &mut H)
            ensures h_tr(final(state)) == h_push(h_tr(old(state)), hv_adv(*self))
        { unimplemented!() }
    }
    pub struct K(pub u64);
    impl core::hash::Hash for K {
        #[verifier::external_body]
        fn hash<H: core::hash::Hasher>(&self, state: &mut H)
            ensures h_tr(final(state)) == h_push(h_tr(old(state)), hv_k(*self))
        { unimplemented!() }
    }
}
'''

SRC_RS = r'''
//! Input source abstraction: the Kani harness draws every primitive from `kani::any()`,
//! the native replay draws the same primitives from the byte vectors Kani's concrete
//! playback printed, in the same order, through the same constructors.
pub trait Src {
    fn u8(&mut self) -> u8;
    fn pick(&mut self, n: u8) -> u8;
    fn pick16(&mut self, n: u16) -> u16 { self.u16() % n.max(1) }
    fn boolean(&mut self) -> bool { self.u8() & 1 == 1 }
    fn i8(&mut self) -> i8 { self.u8() as i8 }
    fn u16(&mut self) -> u16 { (self.u8() as u16) | ((self.u8() as u16) << 8) }
    fn u32(&mut self) -> u32 { (self.u16() as u32) | ((self.u16() as u32) << 16) }
    fn u64(&mut self) -> u64 { (self.u32() as u64) | ((self.u32() as u64) << 32) }
    fn f32(&mut self) -> f32 { f32::from_bits(self.u32()) }
}
pub trait Val: Sized { fn draw<S: Src>(s: &mut S) -> Self; }
impl Val for u8 { fn draw<S: Src>(s: &mut S) -> Self { s.u8() } }
impl Val for i8 { fn draw<S: Src>(s: &mut S) -> Self { s.i8() } }
impl Val for bool { fn draw<S: Src>(s: &mut S) -> Self { s.boolean() } }
impl Val for u16 { fn draw<S: Src>(s: &mut S) -> Self { s.u16() } }
impl Val for u32 { fn draw<S: Src>(s: &mut S) -> Self { s.u32() } }
impl Val for u64 { fn draw<S: Src>(s: &mut S) -> Self { s.u64() } }
impl Val for usize { fn draw<S: Src>(s: &mut S) -> Self { s.u64() as usize } }
impl Val for isize { fn draw<S: Src>(s: &mut S) -> Self { s.u64() as isize } }
impl Val for f32 { fn draw<S: Src>(s: &mut S) -> Self { s.f32() } }
impl Val for &'static u8 { fn draw<S: Src>(s: &mut S) -> Self { Box::leak(Box::new(s.u8())) } }
impl Val for char { fn draw<S: Src>(s: &mut S) -> Self { char::from_u32(s.u16() as u32).unwrap_or('a') } }
impl Val for core::num::NonZeroU8 { fn draw<S: Src>(s: &mut S) -> Self { core::num::NonZeroU8::new(s.u8()).unwrap_or(core::num::NonZeroU8::MIN) } }
impl Val for Option<u8> { fn draw<S: Src>(s: &mut S) -> Self { if s.boolean() { Some(s.u8()) } else { None } } }
impl Val for crate::m::Nest { fn draw<S: Src>(s: &mut S) -> Self { if s.boolean() { crate::m::Nest::X } else { crate::m::Nest::Y } } }
impl Val for [u8; 2] { fn draw<S: Src>(s: &mut S) -> Self { [s.u8(), s.u8()] } }
impl<T> Val for core::marker::PhantomData<T> { fn draw<S: Src>(_s: &mut S) -> Self { core::marker::PhantomData } }
impl Val for [u8; 0] { fn draw<S: Src>(_s: &mut S) -> Self { [] } }
impl Val for () { fn draw<S: Src>(_s: &mut S) -> Self { } }
impl Val for crate::m::K { fn draw<S: Src>(s: &mut S) -> Self { crate::m::K(s.u64()) } }
impl<const ID: usize> Val for crate::m::Ctr<ID> { fn draw<S: Src>(s: &mut S) -> Self { crate::m::Ctr(s.u8()) } }
impl Val for crate::m::Adv { fn draw<S: Src>(s: &mut S) -> Self { crate::m::Adv(s.u8()) } }
impl Val for &'static Box<u8> { fn draw<S: Src>(s: &mut S) -> Self { Box::leak(Box::new(Box::new(s.u8()))) } }
/// wide raw pointers into one static buffer: same address with different lengths, different addresses
pub static PBUF: [u8; 4] = [1, 2, 3, 4];
impl Val for *const [u8] { fn draw<S: Src>(s: &mut S) -> Self { let o = (s.u8() & 1) as usize; let n = (s.u8() & 1) as usize + 1; &PBUF[o..o + n] as *const [u8] } }
impl Val for (u8, core::marker::PhantomData<u16>) { fn draw<S: Src>(s: &mut S) -> Self { (s.u8(), core::marker::PhantomData) } }
impl Val for &'static [u8] { fn draw<S: Src>(s: &mut S) -> Self { let o = (s.u8() & 1) as usize; let n = (s.u8() & 1) as usize + 1; &crate::src::PBUF[o..o + n] } }
impl Val for (u8,) { fn draw<S: Src>(s: &mut S) -> Self { (s.u8(),) } }
impl Val for (u8, u8,) { fn draw<S: Src>(s: &mut S) -> Self { (s.u8(), s.u8()) } }
impl Val for Box<u8> { fn draw<S: Src>(s: &mut S) -> Self { Box::new(s.u8()) } }
impl Val for &'static mut u8 { fn draw<S: Src>(s: &mut S) -> Self { Box::leak(Box::new(s.u8())) } }
impl Val for crate::m::Inc { fn draw<S: Src>(s: &mut S) -> Self { crate::m::Inc(s.u8()) } }

#[cfg(kani)]
pub struct KaniSrc;
#[cfg(kani)]
impl Src for KaniSrc {
    fn u8(&mut self) -> u8 { kani::any() }
    fn pick(&mut self, n: u8) -> u8 { let v: u8 = kani::any(); kani::assume(v < n); v }
    fn pick16(&mut self, n: u16) -> u16 { let v: u16 = kani::any(); kani::assume(v < n); v }
}

pub struct BytesSrc { pub vals: Vec<u8>, pub at: usize }
impl BytesSrc {
    /// args: decimal bytes, one per `kani::any::<u8>()` call, in call order
    pub fn parse(args: &[String]) -> Self {
        BytesSrc { vals: args.iter().map(|a| a.trim().parse::<u8>().expect("byte")).collect(), at: 0 }
    }
}
impl Src for BytesSrc {
    fn u8(&mut self) -> u8 { let v = self.vals.get(self.at).copied().unwrap_or(0); self.at += 1; v }
    fn pick(&mut self, n: u8) -> u8 { self.u8() % n.max(1) }
}

/// native search source (used only to find a concrete failing input for an obligation
/// the verifier has already refuted): edge-biased pseudo-random bytes, recorded so the
/// same input can be replayed through BytesSrc.
pub struct RandSrc { pub st: u64, pub rec: Vec<u8>, pub forced: Vec<u8> }
impl RandSrc {
    pub fn new(seed: u64) -> Self { RandSrc { st: seed.wrapping_mul(0x9E3779B97F4A7C15) | 1, rec: vec![], forced: vec![] } }
    fn next(&mut self) -> u64 { let mut x = self.st; x ^= x << 13; x ^= x >> 7; x ^= x << 17; self.st = x; x }
}
impl Src for RandSrc {
    fn u8(&mut self) -> u8 {
        let v = if !self.forced.is_empty() { self.forced.remove(0) } else {
            let r = self.next();
            const EDGE: [u8; 12] = [0, 1, 2, 3, 4, 5, 127, 128, 252, 253, 254, 255];
            if r & 1 == 0 { EDGE[((r >> 8) % 12) as usize] } else { (r >> 16) as u8 }
        };
        self.rec.push(v); v
    }
    fn pick(&mut self, n: u8) -> u8 { self.u8() % n.max(1) }
    fn f32(&mut self) -> f32 {
        let r = self.next();
        if r & 3 != 0 {
            const SP: [f32; 8] = [0.0, -0.0, 1.0, -1.0, f32::NAN, f32::INFINITY, 2.5, f32::NEG_INFINITY];
            let b = SP[((r >> 4) % 8) as usize].to_bits().to_le_bytes();
            self.forced.extend_from_slice(&b);
        }
        f32::from_bits(self.u32())
    }
}

/// structural sameness (f32/f64 by bits) used by value oracles
/// run-time probe "is T: Copy" (autoref dispatch): a missing `impl Copy` is an assertion failure, not a build failure
pub struct Probe<T>(pub core::marker::PhantomData<T>);
pub trait IsCopy { fn is_copy(&self) -> bool; }
impl<T: Copy> IsCopy for Probe<T> { fn is_copy(&self) -> bool { true } }
pub trait IsNotCopy { fn is_copy(&self) -> bool; }
impl<T> IsNotCopy for &Probe<T> { fn is_copy(&self) -> bool { false } }
pub trait Same { fn same(&self, o: &Self) -> bool; }
macro_rules! same_eq { ($($t:ty),*) => { $(impl Same for $t { fn same(&self, o: &Self) -> bool { self == o } })* } }
same_eq!(u8, u16, u32, u64, usize, i8, i16, i32, i64, isize, bool, char, (), &'static str, String, crate::m::K, crate::m::W, Option<u8>, [u8; 4], [u8; 2], &'static u8, &'static [u8; 2], crate::m::Adv, Option<bool>, crate::m::Num, *const [u8], (u8,), (u8, u8,));
impl Same for fn() -> u8 { fn same(&self, o: &Self) -> bool { self() == o() } }
impl Same for f32 { fn same(&self, o: &Self) -> bool { self.to_bits() == o.to_bits() } }
impl Same for f64 { fn same(&self, o: &Self) -> bool { self.to_bits() == o.to_bits() } }
impl<const ID: usize> Same for crate::m::Ctr<ID> { fn same(&self, o: &Self) -> bool { self.0 == o.0 } }

/// recording Hasher: every write is stored with a type tag, in call order (capacity 32 bytes)
#[derive(Clone, Copy, PartialEq, Eq, Debug)]
pub struct Rec { pub buf: [u8; 32], pub n: u8, pub overflow: bool }
impl Rec {
    pub fn new() -> Self { Rec { buf: [0; 32], n: 0, overflow: false } }
    #[inline(always)]
    fn push(&mut self, b: u8) { if (self.n as usize) < 32 { self.buf[self.n as usize] = b; self.n += 1; } else { self.overflow = true; } }
    /// the record `k` (the non-ignored fields fed in declaration order) is the beginning or the end of this record:
    /// whatever else is fed (the variant tag) comes before or after the fields, and the fields keep their order
    pub fn framed(&self, k: &Rec) -> bool {
        if k.n > self.n { return false; }
        let off = (self.n - k.n) as usize;
        let (mut pre, mut suf) = (true, true);
        let mut i = 0usize;
        while i < 32 {
            if i < k.n as usize {
                if self.buf[i] != k.buf[i] { pre = false; }
                if self.buf[(off + i) & 31] != k.buf[i] { suf = false; }
            }
            i += 1;
        }
        pre || suf
    }
}
impl core::hash::Hasher for Rec {
    fn finish(&self) -> u64 { 0 }
    fn write(&mut self, bytes: &[u8]) { self.push(0xF0); for b in bytes { self.push(*b); } }
    fn write_u8(&mut self, v: u8) { self.push(0xF1); self.push(v); }
    fn write_u16(&mut self, v: u16) { self.push(0xF2); let b = v.to_le_bytes(); self.push(b[0]); self.push(b[1]); }
    fn write_u32(&mut self, v: u32) { self.push(0xF4); let b = v.to_le_bytes(); self.push(b[0]); self.push(b[1]); self.push(b[2]); self.push(b[3]); }
    fn write_u64(&mut self, v: u64) { self.push(0xF8); let b = v.to_le_bytes(); self.push(b[0]); self.push(b[1]); self.push(b[2]); self.push(b[3]); self.push(b[4]); self.push(b[5]); self.push(b[6]); self.push(b[7]); }
    fn write_usize(&mut self, v: usize) { self.push(0xF9); let b = (v as u64).to_le_bytes(); self.push(b[0]); self.push(b[1]); self.push(b[2]); self.push(b[3]); self.push(b[4]); self.push(b[5]); self.push(b[6]); self.push(b[7]); }
    fn write_isize(&mut self, v: isize) { self.push(0xFA); let b = (v as i64).to_le_bytes(); self.push(b[0]); self.push(b[1]); self.push(b[2]); self.push(b[3]); self.push(b[4]); self.push(b[5]); self.push(b[6]); self.push(b[7]); }
    fn write_i8(&mut self, v: i8) { self.push(0xE1); self.push(v as u8); }
}

/// helpers for the native Debug oracle: raw-string keys and method-formatted values
pub struct Raw(pub &'static str);
impl core::fmt::Debug for Raw { fn fmt(&self, f: &mut core::fmt::Formatter<'_>) -> core::fmt::Result { f.write_str(self.0) } }
pub struct ViaFn<'a, T>(pub &'a T, pub fn(&T, &mut core::fmt::Formatter<'_>) -> core::fmt::Result);
impl<'a, T> core::fmt::Debug for ViaFn<'a, T> { fn fmt(&self, f: &mut core::fmt::Formatter<'_>) -> core::fmt::Result { (self.1)(self.0, f) } }

pub fn chk<T: core::fmt::Debug>(out: &mut Vec<(String, String, String)>, label: &str, observed: T, expected: T) {
    out.push((label.to_string(), format!("{:?}", observed), format!("{:?}", expected)));
}
'''

# --------------------------------------------------------------------------------
VERUS_HEAD = r'''#![allow(dead_code, unused_imports, unused_variables, unreachable_patterns, unused_mut, non_snake_case, unused_parens)]
use vstd::prelude::*;
use vstd::std_specs::cmp::{PartialEqSpecImpl, OrdSpecImpl, PartialOrdSpecImpl, OrdSpec, PartialOrdSpec, PartialEqSpec};
use vstd::std_specs::convert::{IntoSpecImpl, IntoSpec};
use core::cmp::Ordering;
verus! {
pub uninterp spec fn f_state(f: &core::fmt::Formatter<'_>) -> int;
pub open spec fn lex2(x: Ordering, y: Ordering) -> Ordering { if x == Ordering::Equal { y } else { x } }
pub open spec fn plex2(x: Option<Ordering>, y: Option<Ordering>) -> Option<Ordering> { if x == Some(Ordering::Equal) { y } else { x } }
pub open spec fn ord_rev(x: Ordering) -> Ordering { match x { Ordering::Less => Ordering::Greater, Ordering::Equal => Ordering::Equal, Ordering::Greater => Ordering::Less } }
pub open spec fn cmp_int(a: int, b: int) -> Ordering { if a < b { Ordering::Less } else if a == b { Ordering::Equal } else { Ordering::Greater } }

// ---- assumed contracts: hashing -------------------------------------------------
pub uninterp spec fn h_tr<H>(h: &H) -> int;
pub uninterp spec fn h_push(t: int, item: int) -> int;
pub uninterp spec fn h_len(t: int) -> int;
pub uninterp spec fn hv_u8(v: u8) -> int;
pub uninterp spec fn hv_u16(v: u16) -> int;
pub uninterp spec fn hv_u32(v: u32) -> int;
pub uninterp spec fn hv_bool(v: bool) -> int;
pub uninterp spec fn hv_usize(v: usize) -> int;
pub uninterp spec fn hv_isize(v: isize) -> int;
pub uninterp spec fn hv_k(v: crate::m::K) -> int;
pub uninterp spec fn hv_adv(v: crate::m::Adv) -> int;
pub assume_specification<H> [<u8 as core::hash::Hash>::hash] (v: &u8, st: &mut H) where H: core::hash::Hasher,
    ensures h_tr(final(st)) == h_push(h_tr(old(st)), hv_u8(*v));
pub assume_specification<H> [<u16 as core::hash::Hash>::hash] (v: &u16, st: &mut H) where H: core::hash::Hasher,
    ensures h_tr(final(st)) == h_push(h_tr(old(st)), hv_u16(*v));
pub assume_specification<H> [<u32 as core::hash::Hash>::hash] (v: &u32, st: &mut H) where H: core::hash::Hasher,
    ensures h_tr(final(st)) == h_push(h_tr(old(st)), hv_u32(*v));
pub assume_specification<H> [<bool as core::hash::Hash>::hash] (v: &bool, st: &mut H) where H: core::hash::Hasher,
    ensures h_tr(final(st)) == h_push(h_tr(old(st)), hv_bool(*v));
pub assume_specification<H> [<usize as core::hash::Hash>::hash] (v: &usize, st: &mut H) where H: core::hash::Hasher,
    ensures h_tr(final(st)) == h_push(h_tr(old(st)), hv_usize(*v));
pub assume_specification<H> [<isize as core::hash::Hash>::hash] (v: &isize, st: &mut H) where H: core::hash::Hasher,
    ensures h_tr(final(st)) == h_push(h_tr(old(st)), hv_isize(*v));
'''

VERUS_FMT = r'''
// ---- assumed contracts: core::fmt builders (abstract call trace; DESIGN section 3) --------
#[verifier::external_type_specification]
#[verifier::external_body]
pub struct ExDebugTuple<'a, 'b: 'a>(core::fmt::DebugTuple<'a, 'b>);
#[verifier::external_type_specification]
#[verifier::external_body]
pub struct ExDebugStruct<'a, 'b: 'a>(core::fmt::DebugStruct<'a, 'b>);

pub struct Tr(pub int);
pub uninterp spec fn wr(st: int, s: Seq<char>) -> core::fmt::Result;
pub uninterp spec fn dyn_id(v: &dyn core::fmt::Debug) -> int;
pub uninterp spec fn tt_start(st: int, name: Seq<char>) -> Tr;
pub uninterp spec fn tt_field(t: Tr, v: int) -> Tr;
pub uninterp spec fn dt_trace(d: &core::fmt::DebugTuple<'_, '_>) -> Tr;
pub uninterp spec fn tfin(t: Tr) -> core::fmt::Result;
pub uninterp spec fn ts_start(st: int, name: Seq<char>) -> Tr;
pub uninterp spec fn ts_field(t: Tr, key: Seq<char>, v: int) -> Tr;
pub uninterp spec fn ds_trace(d: &core::fmt::DebugStruct<'_, '_>) -> Tr;
pub uninterp spec fn sfin(t: Tr) -> core::fmt::Result;
#[verifier::external_type_specification]
#[verifier::external_body]
pub struct ExDebugMap<'a, 'b: 'a>(core::fmt::DebugMap<'a, 'b>);
pub uninterp spec fn tm_start(st: int) -> Tr;
pub uninterp spec fn tm_entry(t: Tr, k: int, v: int) -> Tr;
pub uninterp spec fn dm_trace(d: &core::fmt::DebugMap<'_, '_>) -> Tr;
pub uninterp spec fn mfin(t: Tr) -> core::fmt::Result;
/// identity of a value whose Debug writes exactly the raw string s (educe's key helper)
pub uninterp spec fn raw_key(s: Seq<char>) -> int;
/// identity of a value whose Debug is custom method m applied to the field value v
pub uninterp spec fn method_item(m: int, v: int) -> int;
pub assume_specification<'a, 'b> [core::fmt::Formatter::<'a>::debug_map] (f: &'b mut core::fmt::Formatter<'a>) -> (r: core::fmt::DebugMap<'b, 'a>)
    ensures dm_trace(&r) == tm_start(f_state(old(f)));
pub assume_specification<'a, 'b, 'c> [core::fmt::DebugMap::<'a, 'b>::entry] (d: &'c mut core::fmt::DebugMap<'a, 'b>, k: &dyn core::fmt::Debug, v: &dyn core::fmt::Debug) -> (r: &'c mut core::fmt::DebugMap<'a, 'b>)
    where 'b: 'a,
    ensures dm_trace(final(d)) == tm_entry(dm_trace(old(d)), dyn_id(k), dyn_id(v));
pub assume_specification<'a, 'b> [core::fmt::DebugMap::<'a, 'b>::finish] (d: &mut core::fmt::DebugMap<'a, 'b>) -> (r: core::fmt::Result)
    where 'b: 'a,
    ensures r == mfin(dm_trace(old(d)));

pub assume_specification<'a> [core::fmt::Formatter::<'a>::write_str] (f: &mut core::fmt::Formatter<'a>, s: &str) -> (r: core::fmt::Result)
    ensures r == wr(f_state(old(f)), s@);
pub assume_specification<'a, 'b> [core::fmt::Formatter::<'a>::debug_tuple] (f: &'b mut core::fmt::Formatter<'a>, name: &str) -> (r: core::fmt::DebugTuple<'b, 'a>)
    ensures dt_trace(&r) == tt_start(f_state(old(f)), name@);
pub assume_specification<'a, 'b, 'c> [core::fmt::DebugTuple::<'a, 'b>::field] (d: &'c mut core::fmt::DebugTuple<'a, 'b>, v: &dyn core::fmt::Debug) -> (r: &'c mut core::fmt::DebugTuple<'a, 'b>)
    where 'b: 'a,
    ensures dt_trace(final(d)) == tt_field(dt_trace(old(d)), dyn_id(v));
pub assume_specification<'a, 'b> [core::fmt::DebugTuple::<'a, 'b>::finish] (d: &mut core::fmt::DebugTuple<'a, 'b>) -> (r: core::fmt::Result)
    where 'b: 'a,
    ensures r == tfin(dt_trace(old(d)));
pub assume_specification<'a, 'b> [core::fmt::Formatter::<'a>::debug_struct] (f: &'b mut core::fmt::Formatter<'a>, name: &str) -> (r: core::fmt::DebugStruct<'b, 'a>)
    ensures ds_trace(&r) == ts_start(f_state(old(f)), name@);
pub assume_specification<'a, 'b, 'c> [core::fmt::DebugStruct::<'a, 'b>::field] (d: &'c mut core::fmt::DebugStruct<'a, 'b>, name: &str, v: &dyn core::fmt::Debug) -> (r: &'c mut core::fmt::DebugStruct<'a, 'b>)
    where 'b: 'a,
    ensures ds_trace(final(d)) == ts_field(ds_trace(old(d)), name@, dyn_id(v));
pub assume_specification<'a, 'b> [core::fmt::DebugStruct::<'a, 'b>::finish] (d: &mut core::fmt::DebugStruct<'a, 'b>) -> (r: core::fmt::Result)
    where 'b: 'a,
    ensures r == sfin(ds_trace(old(d)));
// ---- unions (C20, Debug): the raw byte view and the slice's own Debug are stubs with assumed contracts
/// the n bytes starting at x, as a slice (what `slice::from_raw_parts(x as *const T as *const u8, n)` denotes)
pub uninterp spec fn spec_view<T>(x: &T, n: int) -> &'static [u8];
#[verifier::external_body]
pub fn bytes_view<T>(x: &T, n: usize) -> (r: &[u8])
    ensures r == spec_view(x, n as int)
{ unsafe { ::core::slice::from_raw_parts(x as *const T as *const u8, n) } }
/// result of `<[u8] as Debug>::fmt` on the slice s with the formatter in state st
pub uninterp spec fn slice_fmt(s: Seq<u8>, st: int) -> core::fmt::Result;
#[verifier::external_body]
pub fn slice_debug_fmt(x: &[u8], f: &mut core::fmt::Formatter<'_>) -> (r: core::fmt::Result)
    ensures r == slice_fmt(x@, f_state(old(f)))
{ ::core::fmt::Debug::fmt(x, f) }
// facts about core::fmt that keep harmless refactors from alarming: a builder finished
// without any field writes exactly its name
pub mod fmt_ax {
use super::*;
pub broadcast axiom fn axiom_empty_struct_is_write_str(st: int, n: Seq<char>)
    ensures #[trigger] sfin(ts_start(st, n)) == wr(st, n);
pub broadcast axiom fn axiom_empty_tuple_is_write_str(st: int, n: Seq<char>)
    ensures #[trigger] tfin(tt_start(st, n)) == wr(st, n);
}
'''

VERUS_TAIL = "\n} // verus!\nfn main() {}\n"
