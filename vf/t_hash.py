"""Hash (C05): the data fed to any Hasher is (variant tag,) then each non-ignored field in
declaration order through its method / its own Hash.  Verus: abstract call trace for all H.
Kani: recording hasher; rec(a)==rec(b) <=> key(a)==key(b)."""
from .emit import Unit, hdr, conj, dedup, trait_of

HV = {"u8": "hv_u8", "u16": "hv_u16", "u32": "hv_u32", "bool": "hv_bool", "usize": "hv_usize", "isize": "hv_isize",
      "crate::m::K": "hv_k", "crate::m::Adv": "hv_adv"}


def hashed(v):
    return [f for f in v.fields if not f.s("hash", "ignore", False)]


def _item(f, var):
    m = f.s("hash", "method")
    if m:
        return "%s_spec(%s)" % (m, var)
    return "%s(%s)" % (HV[f.ty], var)


def verus(P, impls, u, prop="C05"):
    ims = [im for im in impls if trait_of(im) == "Hash"]
    if len(ims) != 1:
        u.skip_verus = "expected one Hash impl"
        return u
    if not P.variants:
        u.skip_verus = "empty enum"
        return u
    for v in P.variants:
        for f in hashed(v):
            if not f.s("hash", "method") and f.ty not in HV:
                u.skip_verus = "field type %s has no assumed Hash contract" % f.ty
                return u
    im = ims[0]
    ty = P.ty_generic()
    g, w, wf = hdr(im, ty)
    ds = P.discriminants() if P.kind == "enum" else []
    # admissible variant-tag encodings (each used consistently for every variant): position as usize (what the
    # pinned tree emits), position as isize / u32, declared discriminant as isize.  The property only needs
    # the tags to be distinct per variant; accepting several consistent encodings keeps a harmless change
    # of the encoding from alarming while a MIXED encoding (two variants sharing a tag) still fails.
    encs = [("", lambda v: "hv_usize(%dusize)" % v.idx)]
    if P.kind == "enum":
        encs += [("_pi", lambda v: "hv_isize(%disize)" % v.idx), ("_pu32", lambda v: "hv_u32(%du32)" % v.idx),
                 ("_di", lambda v: "hv_isize(%s)" % ("(%disize)" % ds[v.idx])), ("_pu16", lambda v: "hv_u16(%du16)" % v.idx)]
        if len(P.variants) <= 256:
            encs.append(("_pu8", lambda v: "hv_u8(%du8)" % v.idx))        # a one-byte tag is admissible only while it is injective
    first_arms = None
    for suffix, tagf in encs:
        arms = []
        for v in P.variants:
            e = "t"
            if P.kind == "enum":
                e = "h_push(%s, %s)" % (e, tagf(v))
            for f in hashed(v):
                e = "h_push(%s, %s)" % (e, _item(f, "x%d" % f.idx))
            arms.append("%s => %s," % (P.pat(v, "x"), e))
        if first_arms is None:
            first_arms = arms
        u.verus_items.append("pub open spec fn hash_oracle%s%s(x: &%s, t: int) -> int %s {\n    match *x {\n        %s\n    }\n}\n"
                             % (suffix, g, ty, wf, "\n        ".join(arms)))
    arms = first_arms
    u.verus_edits[("Hash", "hash")] = " || ".join("h_tr(final({p1})) == hash_oracle%s({p0}, h_tr(old({p1})))" % sfx for sfx, _ in encs)
    contract = "trace after hash(self, state) == match self { %s } where t = trace before" % " ".join(arms)
    u.verus_obls["%s::hash" % P.name] = ("%s/%s/Hash::hash/ensures" % (prop, P.pid), contract)
    # ---- key equality and the two lemmas (code-independent)
    karms = []
    for v in P.variants:
        ts = []
        for f in hashed(v):
            m = f.s("hash", "method")
            if m:
                ts.append("%s_spec(x%d) == %s_spec(y%d)" % (m, f.idx, m, f.idx))
            else:
                ts.append("x%d == y%d" % (f.idx, f.idx))
        karms.append("(%s, %s) => %s," % (P.pat(v, "x"), P.pat(v, "y"), conj(ts)))
    u.verus_items.append("pub open spec fn hash_key_eq%s(x: &%s, y: &%s) -> bool %s {\n    match (*x, *y) {\n        %s\n        _ => false,\n    }\n}\n"
                         % (g, ty, ty, wf, "\n        ".join(karms)))
    inj = ["forall|t: int, i: int| h_len(#[trigger] h_push(t, i)) == h_len(t) + 1",
           "forall|t1: int, i1: int, t2: int, i2: int| #[trigger] h_push(t1, i1) == #[trigger] h_push(t2, i2) ==> t1 == t2 && i1 == i2"]
    used = dedup([HV[f.ty] for v in P.variants for f in hashed(v) if not f.s("hash", "method")] + (["hv_usize"] if P.kind == "enum" else []))
    tyof = {v: k for k, v in HV.items()}
    for hv in used:
        inj.append("forall|a: %s, b: %s| #[trigger] %s(a) == #[trigger] %s(b) ==> a == b" % (tyof[hv], tyof[hv], hv, hv))
    u.verus_items.append("proof fn law_same_key_same_data%s(x: %s, y: %s, t: int) %s\n    ensures hash_key_eq(&x, &y) ==> hash_oracle(&x, t) == hash_oracle(&y, t) {}\n"
                         % (g, ty, ty, wf))
    u.verus_items.append("proof fn law_diff_key_diff_data%s(x: %s, y: %s, t: int) %s\n    requires %s\n    ensures hash_oracle(&x, t) == hash_oracle(&y, t) ==> hash_key_eq(&x, &y) {}\n"
                         % (g, ty, ty, wf, ",\n        ".join(inj)))
    u.verus_obls["law_same_key_same_data"] = ("%s/%s/laws/same_key_same_data" % (prop, P.pid), "lemma: equal variant+compared fields => identical fed data")
    u.verus_obls["law_diff_key_diff_data"] = ("%s/%s/laws/diff_key_diff_data" % (prop, P.pid), "lemma: injective pushes => different key feeds different data")
    return u


def kani(P, u, prop):
    if not P.variants:
        return
    arms = []
    for v in P.variants:
        st = []
        for f in hashed(v):
            m = f.s("hash", "method")
            if m:
                st.append("%s(x%d, &mut r);" % (m, f.idx))
            else:
                st.append("core::hash::Hash::hash(x%d, &mut r);" % f.idx)
        arms.append("%s => { %s %d }" % (P.pat(v, "x"), " ".join(st), v.idx))
    u.kani_oracle.append("""/// (variant index, data the compared fields feed through their own Hash / method)
pub fn hash_key(x: &TI) -> (u16, crate::src::Rec) {
    let mut r = crate::src::Rec::new();
    let v: u16 = match x {
        %s
    };
    (v, r)
}
pub fn hash_rec(x: &TI) -> crate::src::Rec { let mut r = crate::src::Rec::new(); core::hash::Hash::hash(x, &mut r); r }
""" % "\n        ".join(arms))
    u.kani_harness.append("""
#[kani::proof]
pub fn hash_h() {
    let a = oracle::mk(&mut KaniSrc); let b = oracle::mk(&mut KaniSrc);
    let (ra, rb) = (oracle::hash_rec(&a), oracle::hash_rec(&b));
    let (ka, kb) = (oracle::hash_key(&a), oracle::hash_key(&b));
    assert!(!ra.overflow && !rb.overflow && !ka.1.overflow && !kb.1.overflow, "recorder capacity");
    assert!((ra == rb) == (ka == kb), "contract: fed data equal <=> same variant and same compared-field data");
    assert!(ra.framed(&ka.1), "contract: the non-ignored fields are fed in declaration order (whatever marks the variant comes before or after them)");
    kani::cover!(true);
}
""")
    tw = P.tags.get("hash_twin")
    if tw:
        u.kani_oracle.append(tw["typedef"] + "\n" + tw["conv"])
        u.kani_harness.append("""
#[kani::proof]
pub fn hash_twin_h() {
    let a = oracle::mk(&mut KaniSrc);
    let t = oracle::to_twin(&a);
    let mut r = crate::src::Rec::new();
    core::hash::Hash::hash(&t, &mut r);
    assert!(!r.overflow, "recorder capacity");
    assert!(oracle::hash_rec(&a) == r, "contract: the data Hash feeds does not depend on which other traits are educed on the type");
    kani::cover!(true);
}
""")
        u.kani_obls["hash_twin_h"] = ("%s/%s/Hash::hash/independent-of-other-traits" % (prop, P.pid),
                                      "rec(a) == rec(the same value of a twin type that educes Hash alone, with the same Hash attributes)")
        u.replay.append('{ let a = oracle::mk(s); let t = oracle::to_twin(&a); let mut r = crate::src::Rec::new(); core::hash::Hash::hash(&t, &mut r);\n'
                        '      chk(out, "hash data == hash data of the Hash-only twin", oracle::hash_rec(&a), r); }')
    u.kani_obls["hash_h"] = ("%s/%s/Hash::hash/contract" % (prop, P.pid), "rec(a) == rec(b) <=> (variant, compared-field data)(a) == (..)(b); rec(a) begins or ends with the fields' data in declaration order")
    u.kani_bounded["hash_h"] = None
    u.replay.append('let a = oracle::mk(s); let b = oracle::mk(s);\n'
                    '    chk(out, "hash data of a == hash data of b", oracle::hash_rec(&a) == oracle::hash_rec(&b), oracle::hash_key(&a) == oracle::hash_key(&b));\n'
                    '    chk(out, "fields fed in declaration order", oracle::hash_rec(&a).framed(&oracle::hash_key(&a).1), true);')
