"""Family crate: write, type-check natively (dropping programs whose expansion does not
compile), expand through the real proc-macro, split per program."""
import json, os, re, shutil, subprocess, time, hashlib
from . import rs

REPO = os.environ.get("VERIF_REPO", "/repo")
HERE = os.path.dirname(os.path.dirname(os.path.abspath(__file__)))

CARGO_TOML = """[package]
name = "fam"
version = "0.0.0"
edition = "2021"

[lib]
path = "src/lib.rs"

[[bin]]
name = "replay"
path = "src/replay.rs"

[dependencies]
educe = { path = "%s", features = ["full"] }

[lints.rust]
unexpected_cfgs = { level = "allow", check-cfg = ['cfg(kani)'] }

[workspace]
"""

REPLAY_MAIN = """use fam::src::{Src, BytesSrc, RandSrc};
type Out = Vec<(String, String, String)>;
fn run0<Z9: Src>(pid: &str, s: &mut Z9, out: &mut Out) {
    match pid {
%s        _ => println!("no replay for {}", pid),
    }
}
/// a panic inside the real code (or inside something it must not have called) is an observation too
fn run<Z9: Src>(pid: &str, s: &mut Z9, out: &mut Out) {
    let r = std::panic::catch_unwind(std::panic::AssertUnwindSafe(|| run0(pid, s, out)));
    if let Err(e) = r {
        let msg = e.downcast_ref::<&str>().map(|x| x.to_string()).or_else(|| e.downcast_ref::<String>().cloned()).unwrap_or_default();
        out.push(("the call returns".to_string(), format!("panicked: {}", msg.replace('\\n', " ")), "no panic".to_string()));
    }
}
fn show(out: &Out) -> bool {
    let mut bad = false;
    for (l, o, e) in out { println!("{}: observed {} expected {}", l, o, e); bad |= o != e; }
    bad
}
/// replay <pid> bytes b0 b1 ..      |  replay <pid> search <iters> <seed>
fn main() {
    let a: Vec<String> = std::env::args().collect();
    let pid = a[1].as_str();
    std::panic::set_hook(Box::new(|_| {}));
    if a[2] == "bytes" {
        let mut s = BytesSrc::parse(&a[3..]);
        let mut out = vec![];
        run(pid, &mut s, &mut out);
        std::process::exit(if show(&out) { 1 } else { 0 });
    }
    let iters: u64 = a[3].parse().unwrap();
    let seed: u64 = a[4].parse().unwrap();
    for i in 0..iters {
        let mut s = RandSrc::new(seed * 1_000_003 + i + 1);
        let mut out = vec![];
        run(pid, &mut s, &mut out);
        if out.iter().any(|(_, o, e)| o != e) {
            println!("FOUND bytes: {}", s.rec.iter().map(|b| b.to_string()).collect::<Vec<_>>().join(" "));
            show(&out);
            std::process::exit(1);
        }
    }
    println!("no mismatch in {} random inputs", iters);
}
"""

LIB_HEAD = """#![allow(dead_code, unused_imports, unused_variables, unreachable_patterns, unused_mut, non_snake_case, unused_parens, unused_features, clippy::all)]
#![cfg_attr(kani, feature(stmt_expr_attributes, proc_macro_hygiene))]
pub mod m;
pub mod src;
"""


def env():
    e = dict(os.environ)
    e["CARGO_NET_OFFLINE"] = "true"
    e.pop("RUSTFLAGS", None)
    return e


def sh(cmd, cwd, timeout=3600, extra_env=None):
    e = env()
    if extra_env:
        e.update(extra_env)
    t0 = time.time()
    p = subprocess.run(cmd, cwd=cwd, env=e, stdout=subprocess.PIPE, stderr=subprocess.PIPE,
                       text=True, timeout=timeout)
    return p.returncode, p.stdout, p.stderr, time.time() - t0


class Family:
    def __init__(self, workdir, programs):
        self.dir = workdir
        self.programs = {p.pid: p for p in programs}
        self.dropped = {}      # pid -> reason (undecided)
        self.expansion = {}    # pid -> module body text
        self.impls = {}        # pid -> [rs.Impl]
        self.log = []

    def path(self, *a):
        return os.path.join(self.dir, *a)

    def write(self, files):
        """files: {relative path: text}; module files for programs are src/<pid>.rs"""
        os.makedirs(self.path("src"), exist_ok=True)
        os.makedirs(self.path(".cargo"), exist_ok=True)
        with open(self.path("Cargo.toml"), "w") as f:
            f.write(CARGO_TOML % REPO)
        for cand in (os.path.join(REPO, "Cargo.lock"), "/repo/Cargo.lock"):
            if os.path.exists(cand):
                shutil.copy(cand, self.path("Cargo.lock"))
                break
        with open(self.path(".cargo", "config.toml"), "w") as f:
            f.write("[net]\noffline = true\n")
        # remove stale program files
        for fn in os.listdir(self.path("src")):
            os.remove(self.path("src", fn))
        for rel, text in files.items():
            with open(self.path(rel), "w") as f:
                f.write(text)
        self._write_lib()
        self._stale_guard()

    def _write_lib(self):
        mods = "".join("pub mod %s;\n" % pid for pid in self.programs if pid not in self.dropped)
        with open(self.path("src", "lib.rs"), "w") as f:
            f.write(LIB_HEAD + mods)
        # replay dispatcher
        arms = "".join('        "%s" => fam::%s::replay(s, out),\n' % (pid, pid)
                       for pid, p in self.programs.items() if pid not in self.dropped and p.tags.get("replay"))
        with open(self.path("src", "replay.rs"), "w") as f:
            f.write(REPLAY_MAIN % arms)

    def _stale_guard(self):
        """force the proc-macro to be rebuilt from /repo's working tree: drop every cargo
        fingerprint of educe in this crate's target dir (all profiles, incl. kani's)."""
        t = self.path("target")
        if not os.path.isdir(t):
            return
        for root, dirs, files in os.walk(t):
            if os.path.basename(root) == ".fingerprint":
                for d in list(dirs):
                    if d.startswith("educe-"):
                        shutil.rmtree(os.path.join(root, d), ignore_errors=True)
                dirs[:] = []

    def check_native(self, max_rounds=6):
        """cargo check; a program whose expansion fails to compile is dropped (undecided)."""
        for _ in range(max_rounds):
            rc, out, err, dt = sh(["cargo", "check", "--offline", "--lib", "--message-format=json"], self.dir)
            self.log.append("cargo check rc=%d %.1fs" % (rc, dt))
            if rc == 0:
                return True
            bad = {}
            other = []
            for line in out.splitlines():
                try:
                    m = json.loads(line)
                except Exception:
                    continue
                if m.get("reason") != "compiler-message":
                    continue
                msg = m["message"]
                if msg.get("level") != "error":
                    continue
                hit = None
                for sp in msg.get("spans", []):
                    mm = re.match(r"src/(p[0-9a-z_]+)\.rs$", sp.get("file_name", ""))
                    if mm:
                        hit = mm.group(1)
                        break
                if hit:
                    bad.setdefault(hit, msg.get("rendered") or msg.get("message"))
                else:
                    other.append(msg.get("rendered") or msg.get("message"))
            if not bad:
                self.fatal = "native compile failed outside program files:\n" + "\n".join(other)[:4000] + err[-2000:]
                return False
            for pid, why in bad.items():
                self.dropped[pid] = "expansion does not compile: " + why[:1500]
            self._write_lib()
        self.fatal = "native compile did not converge"
        return False

    def expand(self):
        rc, out, err, dt = sh(["cargo", "rustc", "--offline", "--lib", "--", "-Zunpretty=expanded"],
                              self.dir, extra_env={"RUSTC_BOOTSTRAP": "1"})
        self.log.append("expand rc=%d %.1fs" % (rc, dt))
        if rc != 0:
            self.fatal = "expansion failed:\n" + err[-3000:]
            return False
        with open(self.path("expanded.rs"), "w") as f:
            f.write(out)
        mods = rs.split_modules(out)
        for pid in self.programs:
            if pid in self.dropped:
                continue
            if pid not in mods:
                self.dropped[pid] = "module missing from expansion"
                continue
            self.expansion[pid] = mods[pid]
            try:
                self.impls[pid] = rs.impls_of_module(mods[pid])
            except Exception as ex:  # lost anchor
                self.dropped[pid] = "splitter: %r" % (ex,)
        return True


def sha(text):
    return hashlib.sha256(text.encode()).hexdigest()[:16]
