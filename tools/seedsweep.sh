#!/bin/sh
# regression sweep over the kept seeded changes: apply each seeded/<id>/patch.diff to the repo copy
# $VERIF_REPO (default: a scratch worktree), run the quick check of the property it breaks, undo.
# usage: tools/seedsweep.sh [ids...]     (run via `vp run --with-repo -- sh -c 'VERIF_REPO=$VP_RUN_REPO tools/seedsweep.sh'`)
cd "$(dirname "$0")/.."
R=${VERIF_REPO:?set VERIF_REPO to a scratch copy of the repository (never /repo itself)}
[ "$R" = "/repo" ] && { echo "refusing to patch /repo"; exit 2; }
mkdir -p work
ids=${@:-$(ls seeded)}
for id in $ids; do
  prop=$(python3 -c "import json;print(json.load(open('seeded/$id/meta.json'))['breaks_property'])")
  git -C $R checkout -q -- . ; git -C $R clean -fdq src; git -C $R apply "$(pwd)/seeded/$id/patch.diff" 2>/dev/null || { echo "$id: patch does not apply to this tree ($(python3 -c "import json;print(json.load(open('seeded/$id/meta.json')).get('applies_to','?'))"))"; continue; }
  VERIF_REPO=$R VERIF_PLAYBACKS=0 VERIF_SEARCHES=4 ./check $prop > work/sweep_$id.out 2> work/sweep_$id.err; rc=$?
  echo "$id ($prop) rc=$rc violations=$(grep -c VIOLATION work/sweep_$id.out) | $(tail -1 work/sweep_$id.err | cut -c1-150)"
  git -C $R checkout -q -- . ; git -C $R clean -fdq src
done
