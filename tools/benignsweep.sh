#!/bin/sh
# false-alarm sweep over the behaviour-preserving refactorings under benign/: apply each to the repo copy
# $VERIF_REPO, run the quick checks of the properties its area touches; a VIOLATION line is a false alarm
# (exit 0 = all discharged, exit 2 = undecided; both are acceptable here).
# usage: vp run --with-repo -- sh -c 'VERIF_REPO=$VP_RUN_REPO tools/benignsweep.sh'
cd "$(dirname "$0")/.."
R=${VERIF_REPO:?set VERIF_REPO to a scratch copy of the repository (never /repo itself)}
[ "$R" = "/repo" ] && { echo "refusing to patch /repo"; exit 2; }
mkdir -p work
bad=0
for d in ${@:-$(ls -d benign/*/ | xargs -n1 basename)}; do
  case $d in
    *eq) props="C02 C14 C15";; *ord|*ord2) props="C03 C04 C14 C15 C17";; *hash|*hash2) props="C05 C14 C15 C20";; *debug) props="C06 C14 C15 C20";;
    *clone|*clone2) props="C07 C15 C20";; *default) props="C08 C14 C15 C20";; *deref) props="C09 C15";; *into) props="C10 C14 C15";; *union) props="C20 C08";; *) props="C02";;
  esac
  git -C $R checkout -q -- . ; git -C $R clean -fdq src; git -C $R apply "$(pwd)/benign/$d/patch.diff" || { echo "$d: patch does not apply"; continue; }
  for prop in $props; do
    VERIF_REPO=$R VERIF_PLAYBACKS=0 VERIF_SEARCHES=3 ./check $prop > work/benign_${d}_$prop.out 2> work/benign_${d}_$prop.err; rc=$?
    v=$(grep -c VIOLATION work/benign_${d}_$prop.out)
    [ "$v" != "0" ] && bad=1
    echo "$d $prop rc=$rc violations=$v | $(tail -1 work/benign_${d}_$prop.err | cut -c1-150)"
  done
  git -C $R checkout -q -- . ; git -C $R clean -fdq src
done
[ $bad = 0 ] && echo "benign sweep: no VIOLATION line" || echo "benign sweep: FALSE ALARM(S) above"
