"""C17 (narrow): panic-freedom of the pure helper fragments that can be cut out of the generator:
the three `union_without_unsafe` string builders (Kani, bounded string length) and the
discriminant-type selection arithmetic (Verus, unbounded).  Everything driven by syn is out of
reach and listed as such."""
import json, os, re, subprocess, time
from . import fam as famlib, rs, run as runlib, props

HERE = os.path.dirname(os.path.dirname(os.path.abspath(__file__)))
MAXTAIL = 14   # symbolic ASCII bytes between `Debug(` and `)`


def extract_builder(path):
    """the statements between `let mut s = <...>;` and `syn::Error::new(` of union_without_unsafe.
    Returns (init_expr_text, block_text).  Dropped: the `meta` argument and the syn::Error
    construction (not string surgery); kept verbatim: the match on s.len() and its arms."""
    src = open(path).read()
    i = src.index("fn union_without_unsafe")
    m = re.compile(r"let mut s = (.*?);\n", re.S).search(src, i)
    j = src.index("syn::Error::new(", m.end())
    block = src[m.end():j].strip()
    return m.group(1).strip(), block


def extract_select(path):
    """the width-selection expression of DiscriminantType::from_ast, by anchor"""
    src = open(path).read()
    a = src.index("Ok(if min >= i8::MIN as i128")
    toks = rs.lex(src[a:])
    close = rs.match_close(toks, 1)          # the '(' after Ok
    expr = src[a + toks[1][3]: a + toks[close][2]]
    return expr.strip()


KANI_LIB = r'''
#![allow(dead_code, unused_mut, unused_variables)]
fn ascii(bytes: Vec<u8>) -> String { unsafe { String::from_utf8_unchecked(bytes) } }

pub fn core_hash(mut s: String) -> String { %(hash)s s }
pub fn core_partial_eq(mut s: String) -> String { %(peq)s s }
pub fn core_debug(mut s: String) -> String { %(dbg)s s }

#[cfg(kani)]
mod h {
    use super::*;
    /// call-site precondition: `s` is rustc's rendering of a Meta that passed the attribute builder
    /// with has_unsafe == false: the trait name, optionally `(`..`)` with no space before `(`.
    /// For Hash / PartialEq every parameter other than `unsafe` is rejected earlier on a union, so the
    /// parenthesised part is empty.
    /// rustc renders the empty list forms as `Name()`, `Name {}` and `Name []` (measured through the real macro)
    fn two(name: &str) -> String {
        let mut t = name.to_string();
        let k: u8 = kani::any();
        kani::assume(k < 4);
        match k { 0 => {}, 1 => t.push_str("()"), 2 => t.push_str(" {}"), _ => t.push_str(" []") }
        t
    }
    #[kani::proof]
    #[kani::unwind(%(unw)d)]
    pub fn hash_builder_total() { let s = two("Hash"); let n = s.len(); let r = core_hash(s); assert!(r.len() > n); kani::cover!(true); }
    #[kani::proof]
    #[kani::unwind(%(unw)d)]
    pub fn partial_eq_builder_total() { let s = two("PartialEq"); let n = s.len(); let r = core_partial_eq(s); assert!(r.len() > n); kani::cover!(true); }
    fn debug_with(open: &[u8], close: u8) {
        // "Debug" | "Debug" open tail close, with an arbitrary ASCII tail of 0..=%(tail)d bytes
        let mut v: Vec<u8> = Vec::with_capacity(64);
        v.extend_from_slice(b"Debug");
        if kani::any() {
            v.extend_from_slice(open);
            let n: usize = kani::any();
            kani::assume(n <= %(tail)d);
            let mut i = 0;
            while i < n { let b: u8 = kani::any(); kani::assume(b < 0x80); v.push(b); i += 1; }
            v.push(close);
        }
        let n = v.len();
        let r = core_debug(ascii(v));
        assert!(r.len() > n);
        kani::cover!(true);
    }
    #[kani::proof]
    #[kani::unwind(%(unw)d)]
    pub fn debug_builder_total_paren() { debug_with(b"(", b')') }
    #[kani::proof]
    #[kani::unwind(%(unw)d)]
    pub fn debug_builder_total_brace() { debug_with(b" {", b'}') }
    #[kani::proof]
    #[kani::unwind(%(unw)d)]
    pub fn debug_builder_total_bracket() { debug_with(b" [", b']') }
    /// vacuity guard: a wrong claim about the same extracted builder must FAIL
    #[kani::proof]
    #[kani::unwind(%(unw)d)]
    pub fn canary_hash_builder_wrong_contract() { let r = core_hash(two("Hash")); assert!(r.len() == 4, "must fail: the builder always appends the suggestion"); kani::cover!(true); }
}
'''

VERUS_SELECT = r'''
use vstd::prelude::*;
verus! {
#[derive(PartialEq, Eq)]
pub enum DT { I8, I16, I32, I64, I128 }
pub open spec fn lo(t: DT) -> int { match t { DT::I8 => -0x80, DT::I16 => -0x8000, DT::I32 => -0x8000_0000, DT::I64 => -0x8000_0000_0000_0000, DT::I128 => -0x8000_0000_0000_0000_0000_0000_0000_0000 } }
pub open spec fn hi(t: DT) -> int { match t { DT::I8 => 0x7f, DT::I16 => 0x7fff, DT::I32 => 0x7fff_ffff, DT::I64 => 0x7fff_ffff_ffff_ffff, DT::I128 => 0x7fff_ffff_ffff_ffff_ffff_ffff_ffff_ffff } }
pub open spec fn fits(t: DT, v: int) -> bool { lo(t) <= v <= hi(t) }
pub open spec fn rank(t: DT) -> int { match t { DT::I8 => 0, DT::I16 => 1, DT::I32 => 2, DT::I64 => 3, DT::I128 => 4 } }

pub assume_specification [i128::saturating_add] (a: i128, b: i128) -> (r: i128)
    ensures a + b > i128::MAX ==> r == i128::MAX, a + b < i128::MIN ==> r == i128::MIN, i128::MIN <= a + b <= i128::MAX ==> r == a + b;

// extracted by anchor from src/common/tools/discriminant_type.rs (Self:: -> DT::), verbatim otherwise
pub fn select(min: i128, max: i128) -> (r: DT)
    requires min <= max,
    ensures fits(r, min as int), fits(r, max as int),
            forall|t: DT| fits(t, min as int) && fits(t, max as int) ==> rank(r) <= rank(t),
{
    %(expr)s
}

// the loop step of from_ast: min/max tracking and the saturating counter never overflow or panic
pub fn step(min: i128, max: i128, counter: i128) -> (r: (i128, i128, i128))
    ensures r.0 <= counter, r.1 >= counter, r.0 <= min, r.1 >= max, r.2 >= counter,
{
    let mut min = min; let mut max = max; let mut counter = counter;
    %(step)s
    (min, max, counter)
}

// must-fail canary: a wrong contract on the same extracted expression
pub fn select_canary(min: i128, max: i128) -> (r: DT)
    requires min <= max,
    ensures rank(r) <= 1,
{
    %(expr)s
}
}
fn main() {}
'''


def extract_step(path):
    src = open(path).read()
    a = src.index("if min > counter {")
    b = src.index("counter = counter.saturating_add(1);", a) + len("counter = counter.saturating_add(1);")
    return src[a:b]


def run(prop, tier, seed, args):
    t0 = time.time()
    work = os.path.join(HERE, "work", prop)
    os.makedirs(os.path.join(work, "k", "src"), exist_ok=True)
    repo = famlib.REPO
    results = {}     # obligation -> dict
    undecided = []
    canaries = {}
    blocks = {}
    edits = []
    try:
        for key, rel in (("hash", "hash"), ("peq", "partial_eq"), ("dbg", "debug")):
            init, blk = extract_builder(os.path.join(repo, "src/trait_handlers/%s/panic.rs" % rel))
            blocks[key] = blk
            edits.append("%s/panic.rs: kept `%s`; dropped initialiser `%s` (syn) and the syn::Error construction" % (rel, re.sub(r"\s+", " ", blk)[:90], init[:60]))
    except Exception as ex:
        msg = "extraction anchor lost: %r" % (ex,)
        runlib.eprint("UNDECIDED C17: " + msg)
        _evidence(prop, tier, seed, t0, {}, [("C17/extraction", msg)], {}, [], [])
        return 2
    # the arithmetic part is best effort: a lost anchor drops it (noted), the builders are still decided
    sel = step = None
    arith_dropped = None
    try:
        sel = extract_select(os.path.join(repo, "src/common/tools/discriminant_type.rs")).replace("Self::", "DT::")
        step = extract_step(os.path.join(repo, "src/common/tools/discriminant_type.rs"))
    except Exception as ex:
        arith_dropped = "discriminant arithmetic obligations dropped: extraction anchor lost in discriminant_type.rs (%r)" % (ex,)
        runlib.eprint("NOTE C17: " + arith_dropped)
    # ---- Kani (bounded)
    unw = MAXTAIL + 12
    with open(os.path.join(work, "k", "src", "lib.rs"), "w") as f:
        f.write(KANI_LIB % dict(blocks, unw=unw, tail=MAXTAIL))
    with open(os.path.join(work, "k", "Cargo.toml"), "w") as f:
        f.write('[package]\nname = "c17k"\nversion = "0.0.0"\nedition = "2021"\n[lints.rust]\nunexpected_cfgs = { level = "allow", check-cfg = [\'cfg(kani)\'] }\n[workspace]\n')
    os.makedirs(os.path.join(work, "k", ".cargo"), exist_ok=True)
    with open(os.path.join(work, "k", ".cargo", "config.toml"), "w") as f:
        f.write("[net]\noffline = true\n")
    rc, out, err, dt = famlib.sh(["cargo", "kani", "-j", "6", "--output-format", "terse"], os.path.join(work, "k"), timeout=3600)
    open(os.path.join(work, "kani.log"), "w").write(out + "\n====\n" + err)
    res = runlib.parse_kani(out + "\n" + err)
    kstats = {"harnesses": 0, "verified": 0, "cbmc_s": 0.0, "wall_s": round(dt, 1)}
    bound = "ASCII strings: trait name + optional parenthesised tail of <= %d bytes (unwind %d)" % (MAXTAIL, unw)
    for h, oname, contract, b in (
            ("h::hash_builder_total", "C17/hash_panic/union_without_unsafe/total", "no panic for s in {Hash, Hash(), Hash {}, Hash []}", "exhaustive under the call-site precondition (4 strings)"),
            ("h::partial_eq_builder_total", "C17/partial_eq_panic/union_without_unsafe/total", "no panic for s in {PartialEq, PartialEq(), PartialEq {}, PartialEq []}", "exhaustive under the call-site precondition (4 strings)"),
            ("h::debug_builder_total_paren", "C17/debug_panic/union_without_unsafe/total(paren)", "no panic for s = Debug | Debug(<ascii tail>)", bound),
            ("h::debug_builder_total_brace", "C17/debug_panic/union_without_unsafe/total(brace)", "no panic for s = Debug | Debug {<ascii tail>}", bound),
            ("h::debug_builder_total_bracket", "C17/debug_panic/union_without_unsafe/total(bracket)", "no panic for s = Debug | Debug [<ascii tail>]", bound)):
        r = res.get(h)
        kstats["harnesses"] += 1
        if r is None:
            results[oname] = {"status": "undecided", "engine": "kani", "detail": "harness not reported: " + runlib._short(err, 600), "contract": contract, "bounded": b}
            continue
        kstats["cbmc_s"] += r.get("time", 0)
        if r["ok"] and r.get("cover_ok", True):
            st, detail = "proved", ""
            kstats["verified"] += 1
        elif r.get("tool_failure") or re.search(r"unwinding assertion", r.get("detail", "")):
            st, detail = "undecided", r.get("detail", "")
        elif r["ok"]:
            st, detail = "undecided", "cover not satisfied (vacuous)"
        else:
            st, detail = "failed", r.get("detail", "")
        results[oname] = {"status": st, "engine": "kani", "detail": detail, "contract": contract, "bounded": b}
    r = res.get("h::canary_hash_builder_wrong_contract")
    canaries["kani:builder-wrong-contract"] = "refuted" if (r and not r["ok"] and not r.get("tool_failure")) else "NOT refuted"
    # ---- Verus (unbounded) on the selection arithmetic
    vstats = {"functions": 0, "verified": 0, "smt_ms": 0}
    bd = {}
    class _P: stderr = ""
    p = _P()
    if sel is not None:
        vpath = os.path.join(work, "select.rs")
        open(vpath, "w").write(VERUS_SELECT % {"expr": sel, "step": step})
        p = subprocess.run(["verus", vpath, "--output-json", "--time"], cwd=work, stdout=subprocess.PIPE, stderr=subprocess.PIPE, text=True)
        try:
            j = json.loads(p.stdout[p.stdout.index("{"):])
            bd = runlib.Job._breakdown(j)
            vstats["smt_ms"] = j["times-ms"]["smt"]["total"]
        except Exception:
            j, bd = None, {}
    for fn, oname, contract in ([] if sel is None else (("select::select", "C17/discriminant_type/select/ensures", "selected type fits min and max and is the narrowest that does; no overflow in the comparisons"),
                                ("select::step", "C17/discriminant_type/step/ensures", "min/max/counter update: no overflow, no panic (saturating_add)"))):
        vstats["functions"] += 1
        if fn not in bd:
            results[oname] = {"status": "undecided", "engine": "verus", "detail": "no obligation reported: " + runlib._short(p.stderr, 800), "contract": contract}
        elif bd[fn]:
            results[oname] = {"status": "proved", "engine": "verus", "detail": "", "contract": contract}
            vstats["verified"] += 1
        else:
            results[oname] = {"status": "failed", "engine": "verus", "detail": runlib._short(p.stderr, 2000), "contract": contract}
    if sel is not None:
        canaries["verus:select-wrong-contract"] = "refuted" if bd.get("select::select_canary") is False else "NOT refuted"
    else:
        edits.append(arith_dropped)
    # ---- decision
    violations = [(n, r) for n, r in results.items() if r["status"] == "failed"]
    for n, r in results.items():
        if r["status"] == "undecided":
            undecided.append((n, r["detail"]))
    for k, v in canaries.items():
        if v != "refuted":
            undecided.append(("C17/canary/" + k, "must-fail canary " + v))
    rc = 0
    rdir = os.path.join(HERE, "replays", prop)
    os.makedirs(rdir, exist_ok=True)
    for n, r in violations:
        path = os.path.join(rdir, re.sub(r"[^A-Za-z0-9_.-]+", "_", n) + ".json")
        rec = {"property": prop, "obligation": n, "engine": r["engine"], "contract": r["contract"], "verifier_output": r["detail"],
               "extracted_from": "/repo/src/trait_handlers/*/panic.rs, /repo/src/common/tools/discriminant_type.rs"}
        replayed = False
        if "union_without_unsafe" in n:
            replayed = _replay_builder(work, n, rec)
        json.dump(rec, open(path, "w"), indent=1)
        print("VIOLATION property=%s replay=%s obligation=%s%s" % (prop, path, n, "" if replayed else " no-failing-input-found"))
        rc = 1
    for n, d in undecided:
        runlib.eprint("UNDECIDED %s: %s" % (n, runlib._short(d, 500)))
    if rc == 0 and undecided:
        rc = 2
    _evidence(prop, tier, seed, t0, results, undecided, canaries, edits, violations, kstats, vstats)
    runlib.eprint("%s tier=%s: %d obligations, %d proved, %d violations, %d undecided; canaries %s; %.0fs"
                  % (prop, tier, len(results), sum(1 for r in results.values() if r["status"] == "proved"), len(violations), len(undecided), canaries, time.time() - t0))
    return rc


def _replay_builder(work, oname, rec):
    """replay against the real macro: a union with the offending attribute must yield a spanned
    diagnostic, never `proc-macro derive panicked`"""
    trait = {"hash_panic": "Hash", "partial_eq_panic": "PartialEq", "debug_panic": "Debug"}[oname.split("/")[1]]
    d = os.path.join(work, "replay_" + trait)
    os.makedirs(os.path.join(d, "src"), exist_ok=True)
    open(os.path.join(d, "Cargo.toml"), "w").write('[package]\nname = "c17r"\nversion = "0.0.0"\nedition = "2021"\n[dependencies]\neduce = { path = "%s" }\n[workspace]\n' % famlib.REPO)
    tried = []
    for attr in ("%s" % trait, "%s()" % trait, "%s{}" % trait, "%s[]" % trait, "%s(name = false)" % trait if trait == "Debug" else "%s( )" % trait):
        open(os.path.join(d, "src", "lib.rs"), "w").write("use educe::Educe;\n#[derive(Educe)]\n#[educe(%s)]\npub union U { a: u8, b: u8 }\n" % attr)
        rc, out, err, dt = famlib.sh(["cargo", "check", "--offline"], d, timeout=900)
        tried.append(attr)
        if "proc-macro derive panicked" in err:
            rec["input"] = "#[derive(Educe)] #[educe(%s)] union U { a: u8, b: u8 }" % attr
            rec["native_cmd"] = "cd %s && cargo check --offline" % d
            rec["native_output"] = [l for l in err.splitlines() if "panicked" in l or "message:" in l][:4]
            return True
    rec["tried"] = tried
    return False


def _evidence(prop, tier, seed, t0, results, undecided, canaries, edits, violations, kstats=None, vstats=None):
    os.makedirs(os.path.join(HERE, "evidence"), exist_ok=True)
    proved = [n for n, r in results.items() if r["status"] == "proved"]
    bounded = {n: r["bounded"] for n, r in results.items() if r.get("bounded")}
    sp = props.PROPS[prop]
    cov = {"obligations": max(len(results), 0), "discharged": len(proved),
           "discharged_unbounded": len([n for n in proved if n not in bounded]),
           "bounded_stand_ins": bounded,
           "checker_cmd": "cargo kani (work/C17/k) ; verus work/C17/select.rs --output-json",
           "trusted_base": sp.get("trusted", []) + props.TRUSTED_COMMON,
           "functions_under_contract": ["hash::panic::union_without_unsafe (string surgery)", "partial_eq::panic::union_without_unsafe (string surgery)",
                                        "debug::panic::union_without_unsafe (string surgery)", "DiscriminantType::from_ast (width selection expression, min/max/counter step)"],
           "extraction_edits": edits,
           "engines": {"kani": kstats or {}, "verus": vstats or {}},
           "canaries": canaries,
           "undecided": [{"obligation": n, "why": runlib._short(d, 300)} for n, d in undecided],
           "violations": [n for n, _ in violations],
           "exhaustive": False,
           "samples": [{"obligation": n, "engine": r["engine"], "status": r["status"], "contract": r["contract"], "bounded": r.get("bounded")} for n, r in sorted(results.items())] or [{"note": "no obligations"}],
           "explanation": sp.get("explanation", "")}
    ev = {"property_id": prop, "tier": tier, "seed": seed, "level": "proof", "coverage": cov,
          "assumptions": sp.get("assumptions", []) + props.ASSUMPTIONS_COMMON, "wall_s": round(time.time() - t0, 1), "violations": len(violations)}
    json.dump(ev, open(os.path.join(HERE, "evidence", "%s.json" % prop), "w"), indent=1)
