//! C04: variants order by their DECLARED discriminant.  The declared value of `A = !0 / 2` in a
//! `#[repr(u8)]` enum is 127 (rustc types the expression as u8); on 318a403 the generated code evaluated
//! the expression with i32 literals and cast afterwards (`(!0 / 2) as u8` == 0), so A sorted below B.
use core::cmp::Ordering;
use educe::Educe;

#[derive(Educe, Clone, Copy, Debug)]
#[educe(PartialEq, Eq, PartialOrd, Ord)]
#[repr(u8)]
enum E {
    A = !0 / 2,
    B = 100,
    C = !0 >> 2,
}

#[derive(Educe, Debug)]
#[educe(PartialEq, PartialOrd)]
#[repr(u16)]
enum P {
    Top(u8) = !0 / 3,
    Low { x: u8 } = 7,
}

fn main() {
    let mut bad = 0;
    let mut chk = |what: &str, got: Option<Ordering>, want: Ordering| {
        if got != Some(want) { println!("VIOLATION {}: got {:?}, declared discriminants say {:?}", what, got, want); bad += 1; }
    };
    assert_eq!((E::A as u8, E::B as u8, E::C as u8), (127, 100, 63));
    chk("E::A vs E::B (127 vs 100)", Some(E::A.cmp(&E::B)), Ordering::Greater);
    chk("E::B vs E::C (100 vs 63)", Some(E::B.cmp(&E::C)), Ordering::Greater);
    chk("E::A vs E::C (127 vs 63)", E::A.partial_cmp(&E::C), Ordering::Greater);
    chk("P::Top(0) vs P::Low{x:9} (21845 vs 7)", P::Top(0).partial_cmp(&P::Low { x: 9 }), Ordering::Greater);
    std::process::exit(if bad > 0 { 1 } else { println!("ok: enums order by declared discriminant"); 0 });
}
