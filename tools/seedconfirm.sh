#!/bin/sh
# confirm a sub-agent's seeded change in its own scratch worktree (no git stash: it is shared
# between worktrees):  suite passes with the change; demo fails with it and passes without it
W=$1
cd $W || exit 2
[ -f patch.diff ] || exit 2
git reset -q && git checkout -q -- src && git clean -fdq src && git apply patch.diff || exit 2
mkdir -p /tmp/seedhold && mv tests/seed_demo.rs /tmp/seedhold/seed_demo.rs
echo "== suite with change"; cargo test --workspace --no-fail-fast --offline 2>&1 | grep -E "^test result" | awk '{p+=$4; f+=$6} END {print "passed",p,"failed",f}'
mv /tmp/seedhold/seed_demo.rs tests/seed_demo.rs
echo "== demo with change"; cargo test --offline --test seed_demo 2>&1 | grep -E "^test result|error(\[|:)" | head -3
git apply -R patch.diff; git clean -fdq src
echo "== demo without change"; cargo test --offline --test seed_demo 2>&1 | grep -E "^test result|error(\[|:)" | head -3
git apply patch.diff
