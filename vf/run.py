"""Orchestrator: family -> real expansion -> Verus + Kani -> decision, replay, evidence."""
import json, os, re, sys, time, subprocess, concurrent.futures as cf
from . import fam as famlib, rs, emit, prelude
from .emit import trait_of

HERE = os.path.dirname(os.path.dirname(os.path.abspath(__file__)))
NCPU = int(os.environ.get("VERIF_JOBS", str(os.cpu_count() or 4)))


def eprint(*a):
    print(*a, file=sys.stderr, flush=True)


# ---------------------------------------------------------------------------------
# registry of trait emitters
def emitters():
    from . import t_eq
    from . import t_union
    reg = {"PartialEq": t_eq, "__union__": t_union}
    for name, mod in (("Ord", "t_ord"), ("PartialOrd", "t_ord"), ("Hash", "t_hash"), ("Clone", "t_clone"),
                      ("Default", "t_default"), ("Deref", "t_deref"), ("DerefMut", "t_deref"),
                      ("Into", "t_into"), ("Debug", "t_debug")):
        try:
            reg[name] = __import__("vf." + mod, fromlist=["x"])
        except ImportError:
            pass
    return reg


class Job:
    def __init__(self, prop, tier, seed, programs, workdir):
        self.prop, self.tier, self.seed = prop, tier, seed
        self.programs = programs
        self.work = workdir
        self.fam = famlib.Family(os.path.join(workdir, "fam"), programs)
        self.units = {}            # pid -> [Unit]
        self.results = {}          # obligation name -> dict(status, engine, detail, pid, contract)
        self.canaries = {}         # obligation name -> status
        self.undecided = []        # messages
        self.edits = {}            # pid -> log
        self.stats = {"verus": {"files": 0, "functions": 0, "verified": 0, "smt_ms": 0, "wall_s": 0.0},
                      "kani": {"harnesses": 0, "verified": 0, "cbmc_s": 0.0, "wall_s": 0.0}}
        self.reg = emitters()
        self.extra_kani_flags = []
        self.verus_rejected = {}       # pid -> reason; the program's Kani side still counts
        self.needs_fmt = any("Debug" in p.focus for p in programs)
        self.t0 = time.time()

    # -----------------------------------------------------------------------------
    def make_units(self):
        for pid, P in self.fam.programs.items():
            us = []
            done = set()
            for tr in sorted(P.focus):
                mod = self.reg.get(tr)
                if P.kind == "union" and tr in ("PartialEq", "Hash", "Clone", "Debug"):
                    mod = self.reg["__union__"]
                if mod is None or mod in done:
                    continue
                done.add(mod)
                u = emit.Unit(P.tags.get("prop", self.prop), tr)
                u.mod = mod
                mod.kani(P, u, u.prop)
                us.append(u)
            self.units[pid] = us

    def program_file(self, P):
        us = self.units[P.pid]
        NV = len(P.variants)
        arms = []
        for v in P.variants:
            vals = ["<%s as Val>::draw(s)" % P.inst_ty(f.ty) for f in v.fields]
            arms.append(P.build(v, vals))
        if P.tags.get("mk"):
            mk = P.tags["mk"]
        elif NV == 0:
            mk = "pub fn mk<Z9: Src>(s: &mut Z9) -> TI { unreachable!() }"
        elif NV == 1:
            mk = "pub fn mk<Z9: Src>(s: &mut Z9) -> TI { %s }" % arms[0]
        else:
            body = " ".join("%d => %s," % (i, a) for i, a in enumerate(arms[:-1])) + " _ => %s," % arms[-1]
            if NV <= 255:
                mk = "pub fn mk<Z9: Src>(s: &mut Z9) -> TI { match s.pick(%d) { %s } }" % (NV, body)
            else:
                mk = "pub fn mk<Z9: Src>(s: &mut Z9) -> TI { match s.pick16(%d) { %s } }" % (NV, body)
        oracle = "\n".join(x for u in us for x in u.kani_oracle)
        harness = "\n".join(x for u in us for x in u.kani_harness)
        replay = "\n    ".join(x for u in us for x in u.replay)
        P.tags["replay"] = bool(replay.strip())
        pre = P.tags.get("pre_items", "")
        return """// %s
use educe::Educe;
%s
%s
pub type TI = %s;
pub mod oracle {
    use super::*;
    use crate::src::{Src, Val};
    use core::cmp::Ordering;
    %s
%s
}
#[cfg(kani)]
pub mod h {
    use super::*;
    use crate::src::{Src, Val, KaniSrc};
    use core::cmp::Ordering;
%s
}
pub fn replay<Z9: crate::src::Src>(s: &mut Z9, out: &mut Vec<(String, String, String)>) {
    use crate::src::{Src, Val, chk}; use core::cmp::Ordering;
    %s
}
""" % (P.note or P.pid, pre, P.typedef(True), P.ty_inst(), mk, emit.indent(oracle), emit.indent(harness), replay)

    def write_family(self):
        files = {"src/m.rs": prelude.M_RS, "src/src.rs": prelude.SRC_RS}
        for pid, P in self.fam.programs.items():
            files["src/%s.rs" % pid] = self.program_file(P)
        self.fam.write(files)

    # -----------------------------------------------------------------------------
    # Verus
    def verus_module(self, P):
        """-> (module text, expected obligations {fn suffix: (name, contract)}) or (None, reason)"""
        if P.tags.get("no_verus"):
            return None, P.tags["no_verus"]
        impls = self.fam.impls[P.pid]
        log = []
        us = self.units[P.pid]
        items, edits, drops, obls = [], {}, set(), {}
        done = set()
        for u in us:
            mod = getattr(u, "mod", None) or self.reg[u.trait]
            if not hasattr(mod, "verus"):
                continue
            if mod in done:
                continue
            done.add(mod)
            mod.verus(P, impls, u, u.prop)
            if u.skip_verus:
                log.append("verus side skipped for %s: %s" % (u.trait, u.skip_verus))
                continue
            items += u.verus_items
            edits.update(u.verus_edits)
            drops |= u.verus_drop
            obls.update(u.verus_obls)
        if not obls:
            return None, "; ".join(log) or "no Verus contract for this program"
        want = emit.closure({u.trait for u in us if not u.skip_verus} | set(P.focus) | set(P.tags.get("verus_also", ())))
        focus_traits = {u.trait for u in us if not u.skip_verus}
        # traits handled by one emitter for two names (Ord+PartialOrd, Deref+DerefMut)
        for u in us:
            focus_traits |= set(getattr(getattr(u, "mod", None) or self.reg[u.trait], "COVERS", []))
        body = []
        body.append(P.tags.get("verus_pre_items", ""))
        bcast_at = len(body)
        body.append("")
        body.append(P.typedef(False))
        log.append("dropped: `use educe::Educe`, derive + inert #[educe(..)] helper attributes; fields made pub")
        for im in impls:
            tr = trait_of(im)
            if tr not in want and tr != "inherent":
                log.append("impl %s not included (not under contract here)" % tr)
                continue
            if tr == "inherent" and ("Default" not in focus_traits or not any(mt.name == "new" for mt in im.methods)):
                continue      # only the generated `new()` is under contract; a user's own inherent items are not part of the expansion
            rendered = emit.render_impl(im, edits, drops, log)
            modr = next((getattr(u, "mod", None) for u in us if u.trait == tr and getattr(u, "mod", None) is not None), None) or self.reg.get(tr)
            if modr is not None and hasattr(modr, "post_render") and tr in focus_traits:
                rendered, extra = modr.post_render(P, rendered, log)
                if extra:
                    body.append(extra)
            body.append(rendered)
            if tr not in focus_traits:
                mod = self.reg.get(tr)
                if mod is not None and hasattr(mod, "dummy_spec"):
                    body.append(mod.dummy_spec(P, im, tr) if mod.dummy_spec.__code__.co_argcount == 3 else mod.dummy_spec(P, im))
                    log.append("added inert spec impl for %s (obeys_*_spec = false)" % tr)
        if "Debug" in P.focus:
            body[bcast_at] = "broadcast use {%s};" % ", ".join(["crate::fmt_ax::axiom_empty_struct_is_write_str", "crate::fmt_ax::axiom_empty_tuple_is_write_str"] + P.tags.get("broadcast", []))
        body += items
        self.edits[P.pid] = log
        text = "pub mod %s {\n    use super::*;\n%s\n}\n" % (P.pid, emit.indent("\n".join(body)))
        return text, obls

    def run_verus(self):
        vdir = os.path.join(self.work, "verus")
        os.makedirs(vdir, exist_ok=True)
        for fn in os.listdir(vdir):
            os.remove(os.path.join(vdir, fn))
        mods = {}
        expect = {}
        for pid, P in self.fam.programs.items():
            if pid in self.fam.dropped or pid not in self.fam.impls:
                continue
            try:
                text, obls = self.verus_module(P)
            except Exception as ex:
                self.verus_rejected[pid] = "contract generation / splitter anchor lost (Verus side only): %r" % (ex,)
                continue
            if text is None:
                self.edits.setdefault(pid, []).append("no Verus unit: " + obls)
                continue
            mods[pid] = text
            expect[pid] = obls
        # chunks: canaries separate
        normal = [p for p in mods if self.fam.programs[p].canary_of is None]
        canary = [p for p in mods if self.fam.programs[p].canary_of is not None]
        per = max(4, min(40, (len(normal) + NCPU - 1) // max(1, NCPU)))
        chunks = [normal[i:i + per] for i in range(0, len(normal), per)]
        chunks += [canary[i:i + per] for i in range(0, len(canary), per)]
        t0 = time.time()
        self._verus_chunks(vdir, chunks, mods, expect, depth=0)
        self.stats["verus"]["wall_s"] = round(time.time() - t0, 1)

    def _verus_file(self, vdir, name, pids, mods):
        path = os.path.join(vdir, name + ".rs")
        with open(path, "w") as f:
            f.write(prelude.VERUS_HEAD + prelude.M_VERUS + (prelude.VERUS_FMT if self.needs_fmt else "") + "\n".join(mods[p] for p in pids) + prelude.VERUS_TAIL)
        return path

    def _run_one_verus(self, vdir, name, pids, mods):
        path = self._verus_file(vdir, name, pids, mods)
        nt = max(1, min(8, NCPU // 2))
        try:
            p = subprocess.run(["verus", path, "--output-json", "--time", "--num-threads", str(nt), "--rlimit", "60"],
                               cwd=vdir, stdout=subprocess.PIPE, stderr=subprocess.PIPE, text=True, timeout=1800)
            out, err = p.stdout, p.stderr
        except subprocess.TimeoutExpired:
            return name, pids, None, "timeout"
        try:
            j = json.loads(out[out.index("{"):])
        except Exception:
            j = None
        return name, pids, j, err

    def _verus_chunks(self, vdir, chunks, mods, expect, depth):
        if not chunks:
            return
        with cf.ThreadPoolExecutor(max_workers=max(1, NCPU // 2)) as ex:
            futs = [ex.submit(self._run_one_verus, vdir, "v%d_%03d" % (depth, i), c, mods) for i, c in enumerate(chunks)]
            res = [f.result() for f in futs]
        retry = []
        for name, pids, j, err in res:
            self.stats["verus"]["files"] += 1
            vr = (j or {}).get("verification-results", {})
            frontend = j is None or (vr.get("encountered-error") and not self._breakdown(j)) or vr.get("encountered-vir-error")
            if frontend:
                if len(pids) == 1:
                    pid = pids[0]
                    self.verus_rejected[pid] = "Verus front end rejected the extracted text (not a verdict; Kani still decides this program): " + _short(err)
                else:
                    retry += [[p] for p in pids]
                continue
            self.stats["verus"]["smt_ms"] += j["times-ms"]["smt"]["total"]
            bd = self._breakdown(j)
            for pid in pids:
                P = self.fam.programs[pid]
                pre = "%s::%s::" % (name, pid)
                got = {k[len(pre):]: v for k, v in bd.items() if k.startswith(pre)}
                for suf, (oname, contract) in expect[pid].items():
                    # function may be reported under a type-qualified or impl-qualified name
                    hit = [k for k in got if k == suf or k.endswith("::" + suf)]
                    if not hit:
                        st, detail = "undecided", "Verus generated no obligation for %s (reported: %s)" % (suf, sorted(got))
                    else:
                        ok = all(got[k] for k in hit)
                        st = "proved" if ok else "failed"
                        detail = "" if ok else _errs_for(err, name, pid, self._line_ranges(vdir, name))
                        if not ok and re.search(r"rlimit|Resource limit|timed? ?out", detail, re.I):
                            st = "undecided"
                        if not ok and "/laws/" in oname:
                            st = "undecided"
                            detail = "lemma about the oracle only (independent of /repo) did not verify: " + detail
                    self._record(P, oname, st, "verus", detail, contract)
                    self.stats["verus"]["functions"] += 1
                    if st == "proved":
                        self.stats["verus"]["verified"] += 1
        if retry:
            self._verus_chunks(vdir, retry, mods, expect, depth + 1)

    @staticmethod
    def _breakdown(j):
        out = {}
        for m in j.get("times-ms", {}).get("smt", {}).get("smt-run-module-times", []):
            for f in m.get("function-breakdown", []):
                k = f["function"]
                out[k] = out.get(k, True) and bool(f["success"])
        return out

    def _line_ranges(self, vdir, name):
        path = os.path.join(vdir, name + ".rs")
        rng = {}
        cur = None
        with open(path) as f:
            for i, line in enumerate(f, 1):
                m = re.match(r"pub mod (p[0-9a-z_]+) \{", line)
                if m:
                    cur = m.group(1); rng[cur] = [i, i]
                elif cur:
                    rng[cur][1] = i
        return rng

    def _record(self, P, oname, st, engine, detail, contract):
        rec = {"status": st, "engine": engine, "detail": detail, "pid": P.pid, "contract": contract,
               "program": P.note}
        if P.canary_of is not None:
            self.canaries[oname] = rec
        else:
            self.results[oname] = rec

    # -----------------------------------------------------------------------------
    # Kani
    def run_kani(self):
        expect = {}
        for pid, P in self.fam.programs.items():
            if pid in self.fam.dropped:
                continue
            for u in self.units[pid]:
                for hname, (oname, contract) in u.kani_obls.items():
                    expect["%s::h::%s" % (pid, hname)] = (P, oname, contract, u.kani_bounded.get(hname))
        if not expect:
            return
        t0 = time.time()
        cmd = ["cargo", "kani", "-Z", "function-contracts", "-Z", "stubbing", "-j", str(NCPU), "--output-format", "terse",
               "--default-unwind", "34"] + self.extra_kani_flags
        rc, out, err, dt = famlib.sh(cmd, self.fam.dir, timeout=7200)
        with open(os.path.join(self.work, "kani.log"), "w") as f:
            f.write(out + "\n==== stderr ====\n" + err)
        self.stats["kani"]["wall_s"] = round(time.time() - t0, 1)
        res = parse_kani(out + "\n" + err)
        if not res and rc != 0:
            self.undecided.append("cargo kani failed before verification: " + _short(err, 3000))
            for h, (P, oname, contract, b) in expect.items():
                self._record(P, oname, "undecided", "kani", "kani build failure", contract)
            return
        for h, (P, oname, contract, b) in expect.items():
            r = res.get(h)
            self.stats["kani"]["harnesses"] += 1
            if r is None:
                self._record(P, oname, "undecided", "kani", "harness not reported by kani", contract)
                continue
            self.stats["kani"]["cbmc_s"] += r.get("time", 0.0)
            if r["ok"] and r.get("cover_ok", True):
                st = "proved"; self.stats["kani"]["verified"] += 1
                detail = ""
            elif r["ok"]:
                st = "undecided"; detail = "vacuity guard: cover!(true) after the call was not satisfied"
            else:
                st = "failed"; detail = r.get("detail", "")
                if r.get("tool_failure"):
                    st = "undecided"
                elif re.search(r"unwinding assertion|CBMC timed out|out of memory|unsupported|not currently supported", detail, re.I) and not re.search(r"ensures|assertion failed|dereference|pointer", detail.replace("unwinding assertion", ""), re.I):
                    st = "undecided"
            self._record(P, oname, st, "kani", detail, contract)
            if b:
                self.results.get(oname, self.canaries.get(oname))["bounded"] = b


def parse_kani(text):
    """per-harness results from kani's terse output (sequential or -j threaded format)"""
    res = {}
    cur_of = {}          # thread -> harness being checked
    blocks = []          # (harness, [lines])
    cur = None
    for line in text.splitlines():
        m = re.match(r"^(?:Thread (\d+): )?Checking harness (\S+?)\.\.\.", line)
        if m:
            th = m.group(1) or "-"
            cur_of[th] = m.group(2)
            if m.group(1) is None:
                cur = (m.group(2), [])
                blocks.append(cur)
            else:
                cur = None
            continue
        m = re.match(r"^Thread (\d+):\s*$", line)
        if m:
            cur = (cur_of.get(m.group(1)), [])
            blocks.append(cur)
            continue
        if re.match(r"^(Manual Harness Summary|Complete - |Summary:)", line):
            cur = None
            continue
        if cur is not None:
            cur[1].append(line)
    for name, lines in blocks:
        if name is None:
            continue
        b = "\n".join(lines)
        ok = "VERIFICATION:- SUCCESSFUL" in b
        failed = "VERIFICATION:- FAILED" in b
        if not ok and not failed:
            continue
        r = {"ok": ok and not failed}
        m = re.search(r"Verification Time: ([0-9.]+)s", b)
        if m:
            r["time"] = float(m.group(1))
        m = re.search(r"(\d+) of (\d+) cover properties satisfied", b)
        if m:
            r["cover_ok"] = m.group(1) == m.group(2) and int(m.group(2)) > 0
        fc = re.findall(r"(?m)^Failed Checks: (.*)$", b)
        loc = re.findall(r"(?m)^ File: (.*)$", b)
        r["detail"] = "; ".join(fc[:6]) + (" @ " + "; ".join(loc[:3]) if loc else "")
        if failed and not fc:
            # no failed check reported: CBMC crashed / ran out of memory / timed out -> not a verdict
            r["tool_failure"] = True
            r["detail"] = "kani/cbmc failed without reporting a failed check: " + _short(b, 400)
        res[name] = r
    return res


def _short(s, n=1500):
    s = s.strip()
    return s if len(s) <= n else s[:n // 2] + "\n...\n" + s[-n // 2:]


def _errs_for(err, name, pid, ranges):
    """the diagnostics of a verus run that point into module pid"""
    lo, hi = ranges.get(pid, (0, 0))
    out = []
    for blk in re.split(r"\n(?=error|warning|note: )", err):
        ls = [int(x) for x in re.findall(name + r"\.rs:(\d+):", blk)]
        if any(lo <= l <= hi for l in ls):
            out.append(blk.strip())
    return _short("\n".join(out), 2500) or _short(err, 800)
