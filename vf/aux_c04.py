"""C04 auxiliary obligations on the generator side: the two pure pieces of
common/tools/discriminant_type.rs the emitted comparison type depends on, cut out by anchor on
every run.  (1) Kani, loop-free over all 12 variants: parse_str(as_str(v)) == Some(v) and as_str
names the matching Rust integer type.  (2) Verus: the width selected from (min, max) fits both and
is the narrowest (same extraction as C17's arithmetic obligation).  Lost anchor => undecided."""
import json, os, re, subprocess
from . import fam as famlib, run as runlib, c17

KANI = r'''
#![allow(dead_code)]
%(enum)s
%(impl)s
#[cfg(kani)]
mod h {
    use super::*;
    fn all(k: u8) -> DiscriminantType {
        match k { 0 => DiscriminantType::ISize, 1 => DiscriminantType::I8, 2 => DiscriminantType::I16, 3 => DiscriminantType::I32,
                  4 => DiscriminantType::I64, 5 => DiscriminantType::I128, 6 => DiscriminantType::USize, 7 => DiscriminantType::U8,
                  8 => DiscriminantType::U16, 9 => DiscriminantType::U32, 10 => DiscriminantType::U64, _ => DiscriminantType::U128 }
    }
    fn name(k: u8) -> &'static str {
        match k { 0 => "isize", 1 => "i8", 2 => "i16", 3 => "i32", 4 => "i64", 5 => "i128", 6 => "usize", 7 => "u8", 8 => "u16", 9 => "u32", 10 => "u64", _ => "u128" }
    }
    fn tag(t: &DiscriminantType) -> u8 {
        match t { DiscriminantType::ISize => 0, DiscriminantType::I8 => 1, DiscriminantType::I16 => 2, DiscriminantType::I32 => 3,
                  DiscriminantType::I64 => 4, DiscriminantType::I128 => 5, DiscriminantType::USize => 6, DiscriminantType::U8 => 7,
                  DiscriminantType::U16 => 8, DiscriminantType::U32 => 9, DiscriminantType::U64 => 10, DiscriminantType::U128 => 11 }
    }
    #[kani::proof]
    #[kani::unwind(8)]
    pub fn roundtrip() {
        let k: u8 = kani::any();
        kani::assume(k < 12);
        let v = all(k);
        assert!(v.as_str() == name(k), "contract: as_str names the variant's Rust integer type");
        match DiscriminantType::parse_str(v.as_str()) { Some(w) => assert!(tag(&w) == k, "contract: parse_str(as_str(v)) == Some(v)"), None => assert!(false, "contract: parse_str(as_str(v)) is Some") }
        kani::cover!(true);
    }
    #[kani::proof]
    #[kani::unwind(8)]
    pub fn canary_wrong_name() { let v = all(1); assert!(v.as_str() == "i16"); }
}
'''


def extract(path):
    src = open(path).read()
    a = src.index("pub(crate) enum DiscriminantType")
    a = src.rfind("#[derive", 0, a)
    b = src.index("impl DiscriminantType", a)
    enum_txt = src[a:b]
    # first impl block (parse_str + as_str)
    from . import rs
    toks = rs.lex(src[b:])
    k = next(i for i, t in enumerate(toks) if t[1] == "{")
    e = rs.match_close(toks, k)
    impl_txt = src[b:b + toks[e][3]]
    if "fn parse_str" not in impl_txt or "fn as_str" not in impl_txt:
        raise ValueError("parse_str/as_str anchor lost")
    return enum_txt.replace("pub(crate)", "pub"), impl_txt.replace("pub(crate)", "pub")


def run(job):
    work = os.path.join(job.work, "aux")
    os.makedirs(os.path.join(work, "src"), exist_ok=True)
    os.makedirs(os.path.join(work, ".cargo"), exist_ok=True)
    P = type("P", (), {"pid": "aux", "note": "generator-side helpers of discriminant_type.rs", "canary_of": None})()
    path = os.path.join(famlib.REPO, "src/common/tools/discriminant_type.rs")
    def rec(name, st, eng, detail, contract):
        job.results[name] = {"status": st, "engine": eng, "detail": detail, "pid": "aux", "contract": contract, "program": P.note}
    try:
        enum_txt, impl_txt = extract(path)
        sel = c17.extract_select(path).replace("Self::", "DT::")
        step = c17.extract_step(path)
    except Exception as ex:
        # best effort (DESIGN 5 C04): a lost anchor drops the auxiliary obligations, it never alarms and never fails the check
        job.aux_dropped = "C04 auxiliary generator-side obligations dropped: extraction anchor lost in discriminant_type.rs (%r)" % (ex,)
        runlib.eprint("NOTE " + job.aux_dropped)
        return
    open(os.path.join(work, "src", "lib.rs"), "w").write(KANI % {"enum": enum_txt, "impl": impl_txt})
    open(os.path.join(work, "Cargo.toml"), "w").write('[package]\nname = "c04aux"\nversion = "0.0.0"\nedition = "2021"\n[lints.rust]\nunexpected_cfgs = { level = "allow", check-cfg = [\'cfg(kani)\'] }\n[workspace]\n')
    open(os.path.join(work, ".cargo", "config.toml"), "w").write("[net]\noffline = true\n")
    rc, out, err, dt = famlib.sh(["cargo", "kani", "--output-format", "terse"], work, timeout=1800)
    res = runlib.parse_kani(out + "\n" + err)
    r = res.get("h::roundtrip")
    c = "for all 12 variants v: as_str(v) names v's integer type and parse_str(as_str(v)) == Some(v)"
    n1 = "C04/aux/discriminant_type/parse_str_as_str/roundtrip"
    if r is None or r.get("tool_failure"):
        rec(n1, "undecided", "kani", "harness not reported / tool failure: " + runlib._short(err, 500), c)
    elif r["ok"] and r.get("cover_ok", True):
        rec(n1, "proved", "kani", "", c)
        job.stats["kani"]["harnesses"] += 1; job.stats["kani"]["verified"] += 1
    else:
        rec(n1, "failed", "kani", r.get("detail", ""), c)
    cr = res.get("h::canary_wrong_name")
    if not (cr and not cr["ok"] and not cr.get("tool_failure")):
        rec("C04/aux/canary", "undecided", "kani", "must-fail canary on as_str was not refuted", "canary")
    vpath = os.path.join(work, "select.rs")
    open(vpath, "w").write(c17.VERUS_SELECT % {"expr": sel, "step": step})
    p = subprocess.run(["verus", vpath, "--output-json", "--time"], cwd=work, stdout=subprocess.PIPE, stderr=subprocess.PIPE, text=True)
    try:
        j = json.loads(p.stdout[p.stdout.index("{"):])
        bd = runlib.Job._breakdown(j)
    except Exception:
        bd = {}
    n2 = "C04/aux/discriminant_type/select/ensures"
    c2 = "the integer type selected from (min, max) of the declared discriminants contains both and is the narrowest signed type that does"
    if "select::select" not in bd:
        rec(n2, "undecided", "verus", "no obligation reported: " + runlib._short(p.stderr, 600), c2)
    elif bd["select::select"]:
        rec(n2, "proved", "verus", "", c2)
        job.stats["verus"]["functions"] += 1; job.stats["verus"]["verified"] += 1
    else:
        rec(n2, "failed", "verus", runlib._short(p.stderr, 1500), c2)
    if bd.get("select::select_canary") is not False:
        rec("C04/aux/canary_select", "undecided", "verus", "must-fail canary on select was not refuted", "canary")
