// Enum ordering must follow the declared discriminants (declaration order here) and, for
// the same variant, the fields alone — whatever layout rustc picks.
use educe::Educe;
use std::cmp::Ordering;

#[derive(Educe)]
#[educe(PartialEq, Eq, PartialOrd, Ord)]
enum Only { Only(u8) }

#[derive(Educe)]
#[educe(PartialEq, Eq, PartialOrd, Ord)]
enum Niche { B, A(bool) }

fn main() {
    let mut bad = 0;
    // same variant: ordered by the field: 53 < 149  (as i8: 53 > -107)
    let r = Only::Only(53).cmp(&Only::Only(149));
    println!("Only(53).cmp(Only(149)) = {:?} (expected Less)", r);
    if r != Ordering::Less { bad += 1; }
    // different variants: B (declared first, discriminant 0) < A(_) (discriminant 1)
    let r = Niche::B.cmp(&Niche::A(false));
    println!("B.cmp(A(false)) = {:?} (expected Less)", r);
    if r != Ordering::Less { bad += 1; }
    let r = Niche::A(true).cmp(&Niche::A(false));
    println!("A(true).cmp(A(false)) = {:?} (expected Greater)", r);
    if r != Ordering::Greater { bad += 1; }
    std::process::exit(if bad > 0 { 1 } else { 0 });
}
