"""PartialEq (C02): eq == same variant && every compared field equal under its method /
its own `==`; ne is the negation; laws follow from the field laws."""
from .emit import Unit, hdr, conj, dedup

PES = "vstd::std_specs::cmp::PartialEqSpec"


def compared(f):
    return not f.s("eq", "ignore", False)


def _find(impls, name):
    from .emit import trait_of
    return [im for im in impls if trait_of(im) == name]


def dummy_spec(P, im):
    g, w, _ = hdr(im, P.ty_generic())
    return ("impl%s PartialEqSpecImpl for %s %s {\n"
            "    open spec fn obeys_eq_spec() -> bool { false }\n"
            "    open spec fn eq_spec(&self, other: &Self) -> bool { true }\n}\n") % (g, im.self_ty, w)


def verus(P, impls, u, prop="C02"):
    ims = _find(impls, "PartialEq")
    if len(ims) != 1:
        u.skip_verus = "expected exactly one PartialEq impl, found %d" % len(ims)
        return u
    im = ims[0]
    g, w, wf = hdr(im, P.ty_generic())
    ty = P.ty_generic()
    # ---------------- Verus oracle
    arms = []
    for v in P.variants:
        terms = []
        for f in v.fields:
            if not compared(f):
                continue
            m = f.s("eq", "method")
            if m:
                terms.append("%s_spec(&x%d, &y%d)" % (m, f.idx, f.idx))
            else:
                terms.append("%s::eq_spec(&x%d, &y%d)" % (PES, f.idx, f.idx))
        arms.append("(%s, %s) => %s," % (P.pat(v, "x"), P.pat(v, "y"), conj(terms)))
    deleg = dedup([f.ty for v in P.variants for f in v.fields if compared(f) and not f.s("eq", "method")])
    meths = dedup([(f.s("eq", "method"), f.ty) for v in P.variants for f in v.fields if compared(f) and f.s("eq", "method")])
    obeys = conj(["<%s as %s>::obeys_eq_spec()" % (t, PES) for t in deleg])
    contract = "eq_spec(x, y) == match (x, y) { %s _ => false }" % " ".join(arms)
    u.verus_items.append(
        "pub open spec fn eq_oracle%s(x: &%s, y: &%s) -> bool %s {\n    match (*x, *y) {\n        %s\n        _ => false,\n    }\n}\n"
        % (g, ty, ty, wf, "\n        ".join(arms)))
    u.verus_items.append(
        "impl%s PartialEqSpecImpl for %s %s {\n    open spec fn obeys_eq_spec() -> bool { %s }\n"
        "    open spec fn eq_spec(&self, other: &Self) -> bool { eq_oracle(self, other) }\n}\n"
        % (g, im.self_ty, w, obeys))
    name = P.name
    u.verus_obls["%s::eq" % name] = ("%s/%s/PartialEq::eq/ensures" % (prop, P.pid), contract)
    # ---------------- laws over the oracle
    def hyp(kind):
        hs = []
        for t in deleg:
            e = lambda a, b: "%s::eq_spec(&%s, &%s)" % (PES, a, b)
            if kind == "refl":
                hs.append("forall|p: %s| %s" % (t, e("p", "p")))
            elif kind == "sym":
                hs.append("forall|p: %s, q: %s| %s == %s" % (t, t, e("p", "q"), e("q", "p")))
            else:
                hs.append("forall|p: %s, q: %s, r: %s| %s && %s ==> %s" % (t, t, t, e("p", "q"), e("q", "r"), e("p", "r")))
        for m, t in meths:
            e = lambda a, b: "%s_spec(&%s, &%s)" % (m, a, b)
            if kind == "refl":
                hs.append("forall|p: %s| %s" % (t, e("p", "p")))
            elif kind == "sym":
                hs.append("forall|p: %s, q: %s| %s == %s" % (t, t, e("p", "q"), e("q", "p")))
            else:
                hs.append("forall|p: %s, q: %s, r: %s| %s && %s ==> %s" % (t, t, t, e("p", "q"), e("q", "r"), e("p", "r")))
        return ("requires " + ", ".join(hs)) if hs else ""
    u.verus_items.append(
        "proof fn law_refl%s(x: %s) %s\n    %s\n    ensures eq_oracle(&x, &x) {}\n" % (g, ty, wf, hyp("refl")))
    u.verus_items.append(
        "proof fn law_sym%s(x: %s, y: %s) %s\n    %s\n    ensures eq_oracle(&x, &y) == eq_oracle(&y, &x) {}\n" % (g, ty, ty, wf, hyp("sym")))
    u.verus_items.append(
        "proof fn law_trans%s(x: %s, y: %s, z: %s) %s\n    %s\n    ensures eq_oracle(&x, &y) && eq_oracle(&y, &z) ==> eq_oracle(&x, &z) {}\n"
        % (g, ty, ty, ty, wf, hyp("trans")))
    for k in ("refl", "sym", "trans"):
        u.verus_obls["law_%s" % k] = ("%s/%s/laws/%s" % (prop, P.pid, k), "eq_oracle is %s given the field relations are" % k)
    return u


def kani(P, u, prop):
    if not P.variants:
        return
    arms = []
    for v in P.variants:
        terms = []
        for f in v.fields:
            if not compared(f):
                continue
            m = f.s("eq", "method")
            if m:
                terms.append("%s(x%d, y%d)" % (m, f.idx, f.idx))
            else:
                terms.append("*x%d == *y%d" % (f.idx, f.idx))
        arms.append("(%s, %s) => %s," % (P.pat(v, "x"), P.pat(v, "y"), conj(terms)))
    u.kani_oracle.append("pub fn eq(x: &TI, y: &TI) -> bool {\n    match (x, y) {\n        %s\n        _ => false,\n    }\n}\n"
                         % "\n        ".join(arms))
    u.kani_harness.append("""
#[kani::proof]
pub fn eq_h() { let a = oracle::mk(&mut KaniSrc); let b = oracle::mk(&mut KaniSrc); let r = a == b; assert!(r == oracle::eq(&a, &b), "contract: (a == b) == oracle::eq(a, b)"); kani::cover!(true); }
#[kani::proof]
pub fn eq_alias_h() { let a = oracle::mk(&mut KaniSrc); let r = a == a; assert!(r == oracle::eq(&a, &a), "contract: (a == a) through the same reference == oracle::eq(a, a)"); kani::cover!(true); }
#[kani::proof]
pub fn ne_h() { let a = oracle::mk(&mut KaniSrc); let b = oracle::mk(&mut KaniSrc); let r = a != b; assert!(r == !oracle::eq(&a, &b), "contract: (a != b) == !oracle::eq(a, b)"); kani::cover!(true); }
""")
    u.kani_obls["eq_h"] = ("%s/%s/PartialEq::eq/contract" % (prop, P.pid), "(a == b) == oracle::eq(a, b)")
    u.kani_obls["eq_alias_h"] = ("%s/%s/PartialEq::eq/contract(aliased operands)" % (prop, P.pid), "(&a == &a) == oracle::eq(a, a): the result depends on the values only")
    u.kani_obls["ne_h"] = ("%s/%s/PartialEq::ne/contract" % (prop, P.pid), "(a != b) == !oracle::eq(a, b)")
    u.replay.append('let a = oracle::mk(s); let b = oracle::mk(s);\n'
                    '    chk(out, "a == b", a == b, oracle::eq(&a, &b)); chk(out, "a == a", a == a, oracle::eq(&a, &a)); chk(out, "a != b", a != b, !oracle::eq(&a, &b));')
