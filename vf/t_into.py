"""Into (C10): for every requested target T, into() consumes x and returns the field designated
for T (marked, else sole, else the unique field of type T) through its method, unchanged when
its type is T, else converted with Into<T>."""
import re
from .emit import Unit, hdr, conj, dedup, trait_of

WIDEN = {("u8", "u16"), ("u8", "u32"), ("u16", "u32"), ("u8", "u64"), ("u16", "u64"), ("u32", "u64"), ("bool", "u8"), ("bool", "u32"), ("bool", "u16")}


def desig(v, T):
    ms = [f for f in v.fields if T in f.s("into", "marks", {})]
    if len(v.fields) == 1:
        return v.fields[0]
    if ms:
        return ms[0]
    same = [f for f in v.fields if f.ty == T]
    return same[0] if len(same) == 1 else None


def _value(f, T, var, spec):
    m = f.s("into", "marks", {}).get(T)
    if m:
        return ("%s_spec(%s)" if spec else "%s(%s)") % (m, var)
    if f.ty == T:
        return var
    if spec:
        return "(%s as %s)" % (var, T)
    return "<%s as Into<%s>>::into(%s)" % (f.ty, T, var)


def targets(P):
    return P.s("into", "targets", [])


def tkey(T):
    return re.sub(r"[^A-Za-z0-9]", "_", T)


def verus(P, impls, u, prop="C10"):
    ims = [im for im in impls if trait_of(im) == "Into"]
    ty = P.ty_generic()
    if len(ims) != len(targets(P)):
        u.skip_verus = "expected %d Into impls, found %d" % (len(targets(P)), len(ims))
        return u
    for T in targets(P):
        for v in P.variants:
            d = desig(v, T)
            if not d.s("into", "marks", {}).get(T) and d.ty != T and (d.ty == "bool" or (d.ty, T) not in WIDEN):
                u.skip_verus = "vstd has no spec for the conversion %s -> %s; this program is decided by Kani only" % (d.ty, T)
                return u
    for T in targets(P):
        im = [i for i in ims if re.sub(r"\s+", "", i.trait_args) == re.sub(r"\s+", "", T)]
        if len(im) != 1:
            u.skip_verus = "no Into<%s> impl in the expansion" % T
            return u
        im = im[0]
        g, w, wf = hdr(im, ty)
        arms = []
        for v in P.variants:
            d = desig(v, T)
            arms.append("%s => %s," % (P.pat(v, "x", only={d.idx}), _value(d, T, "x%d" % d.idx, True)))
        fn = "into_oracle_%s" % tkey(T)
        u.verus_items.append("pub open spec fn %s%s(x: %s) -> %s %s {\n    match x {\n        %s\n    }\n}\n" % (fn, g, ty, T, wf, "\n        ".join(arms)))
        u.verus_items.append("impl%s IntoSpecImpl<%s> for %s %s {\n    open spec fn obeys_into_spec() -> bool { true }\n"
                             "    open spec fn into_spec(self) -> %s { %s(self) }\n}\n" % (g, T, im.self_ty, w, T, fn))
    # verus reports the functions as <Type>::into (one entry per impl)
    u.verus_obls["%s::into" % P.name] = ("%s/%s/Into::into/ensures" % (prop, P.pid),
                                         "for T in %s: into(x) == designated field / method / conversion" % targets(P))
    u.tags = {"count": len(targets(P))}
    return u


def kani(P, u, prop):
    if not P.variants:
        return
    for T in targets(P):
        arms = []
        for v in P.variants:
            d = desig(v, T)
            arms.append("%s => %s," % (P.pat(v, "x", only={d.idx}), _value(d, T, "*x%d" % d.idx, False)))
        k = tkey(T)
        u.kani_oracle.append("pub fn into_%s(x: &TI) -> %s {\n    match x {\n        %s\n    }\n}\n" % (k, T, "\n        ".join(arms)))
        u.kani_harness.append("""
#[kani::proof]
pub fn into_%s_h() {
    let x = oracle::mk(&mut KaniSrc);
    let want = oracle::into_%s(&x);
    let r: %s = Into::<%s>::into(x);
    assert!(r == want, "contract: into::<%s>() == designated field / method / conversion");
    kani::cover!(true);
}
""" % (k, k, T, T, T))
        u.kani_obls["into_%s_h" % k] = ("%s/%s/Into<%s>::into/contract" % (prop, P.pid, T), "Into::<%s>::into(x) == oracle::into_%s(&x)" % (T, k))
        u.replay.append('{ let x = oracle::mk(s); let want = oracle::into_%s(&x); let r: %s = Into::<%s>::into(x); chk(out, "Into::<%s>::into(x)", r, want); }' % (k, T, T, T))
