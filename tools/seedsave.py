#!/usr/bin/env python3
"""seedsave.py <id> <worktree> <property> <caught_by|MISSED> <needs...>  : keep a confirmed seeded change"""
import json, os, shutil, sys, subprocess
sid, wt, prop, caught = sys.argv[1:5]
needs = " ".join(sys.argv[5:])
d = os.path.join("/verif/seeded", sid)
os.makedirs(d, exist_ok=True)
shutil.copy(os.path.join(wt, "patch.diff"), d)
shutil.copy(os.path.join(wt, "tests/seed_demo.rs"), d)
if os.path.exists(os.path.join(wt, "NOTES.md")):
    shutil.copy(os.path.join(wt, "NOTES.md"), d)
meta = {"id": sid, "breaks_property": prop, "needs_to_manifest": needs,
        "written_by": "independent sub-agent given only the property text and a scratch worktree",
        "confirmed": "tools/seedconfirm.sh: existing suite 335 passed / 0 failed with the change; tests/seed_demo.rs fails with the change and passes without it",
        "checked_with": "tools/seedtest.sh (git -C /repo apply; ./check <ids>; git -C /repo checkout -- .)",
        "result": caught}
json.dump(meta, open(os.path.join(d, "meta.json"), "w"), indent=1)
print("saved", d)
