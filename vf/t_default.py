"""Default (C08): default() builds the designated value; new() == default().  There are no
inputs: the quantifier is over programs only, each proof is an evaluation."""
from .emit import Unit, hdr, conj, dedup, trait_of


def designated(P):
    """the variant (or union field list) default() must build"""
    if P.kind in ("struct",):
        return P.variants[0]
    if P.kind == "enum":
        vs = [v for v in P.variants if v.s("default", "marked")]
        if vs:
            return vs[0]
        return P.variants[0] if len(P.variants) == 1 else None
    return P.variants[0]


def expected_expr(P):
    te = P.s("default", "type_expected")
    if te:
        return te
    v = designated(P)
    if P.kind == "union":
        fs = [f for f in v.fields if f.s("default", "marked")] or v.fields[:1]
        f = fs[0]
        return "%s { %s: %s }" % (P.name, f.name, f.s("default", "expected"))
    return P.build(v, [f.s("default", "expected") for f in v.fields])


def verus_ok(P):
    if P.kind == "union" or P.s("default", "no_verus"):
        return False
    v = designated(P)
    if v is None:
        return True
    return all(f.s("default", "verus", True) for f in v.fields)


def verus(P, impls, u, prop="C08"):
    ims = [im for im in impls if trait_of(im) == "Default"]
    if len(ims) != 1:
        u.skip_verus = "expected one Default impl"
        return u
    if not verus_ok(P):
        u.skip_verus = "value uses a type outside vstd's specs (float / str / String / custom From / union): Kani only"
        return u
    exp = expected_expr(P)
    u.verus_edits[("Default", "default")] = "r == (%s)" % exp
    u.verus_obls["%s::default" % P.name] = ("%s/%s/Default::default/ensures" % (prop, P.pid), "default() == %s" % exp)
    if P.s("default", "new"):
        u.verus_edits[("inherent", "new")] = "r == (%s)" % exp
        u.verus_obls["%s::new" % P.name] = ("%s/%s/new/ensures" % (prop, P.pid), "new() == %s" % exp)
    return u


def kani(P, u, prop):
    exp = expected_expr(P)
    if P.kind == "union":
        v = P.variants[0]
        f = ([x for x in v.fields if x.s("default", "marked")] or v.fields[:1])[0]
        u.kani_oracle.append("pub fn default_ok(d: &TI) -> bool { unsafe { crate::src::Same::same(&d.%s, &(%s)) } }\n" % (f.name, f.s("default", "expected")))
    else:
        arms = []
        for v in P.variants:
            ts = ["crate::src::Same::same(x%d, y%d)" % (f.idx, f.idx) for f in v.fields]
            arms.append("(%s, %s) => %s," % (P.pat(v, "x"), P.pat(v, "y"), conj(ts)))
        u.kani_oracle.append("pub fn default_ok(d: &TI) -> bool {\n    let e: TI = %s;\n    match (d, &e) { %s _ => false }\n}\n"
                             % (exp, " ".join(arms)))
    new = 'crate::m::id_reset(); assert!(oracle::default_ok(&<TI>::new()), "contract: new() == designated value");' if P.s("default", "new") else ""
    u.kani_harness.append("""
#[kani::proof]
pub fn default_h() {
    crate::m::id_reset();
    let d = <TI as Default>::default();
    assert!(oracle::default_ok(&d), "contract: default() == designated value");
    %s
    kani::cover!(true);
}
""" % new)
    u.kani_obls["default_h"] = ("%s/%s/Default::default/contract" % (prop, P.pid), "default() (and new()) == %s" % exp)
    rnew = 'crate::m::id_reset(); chk(out, "new() is the designated value", oracle::default_ok(&<TI>::new()), true);' if P.s("default", "new") else ""
    u.replay.append('crate::m::id_reset(); chk(out, "default() is the designated value `%s`", oracle::default_ok(&<TI as Default>::default()), true); %s'
                    % (exp.replace('"', "'"), rnew))
