#!/bin/sh
# exit 0 = diagnostic (property holds), exit 1 = proc-macro panicked (violation)
cd "$(dirname "$0")" && cp /repo/Cargo.lock . 2>/dev/null
out=$(cargo check --offline 2>&1)
echo "$out" | grep -E "panicked|is_char_boundary|to implement the" | head -5
if echo "$out" | grep -q "proc-macro derive panicked"; then echo "VIOLATION: macro panicked"; exit 1; fi
echo "ok: spanned diagnostic"; exit 0
