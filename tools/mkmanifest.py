#!/usr/bin/env python3
"""regenerate /verif/MANIFEST.json from the property registry (vf/props.py)"""
import json, os, sys
HERE = os.path.dirname(os.path.dirname(os.path.abspath(__file__)))
sys.path.insert(0, HERE)
from vf import props

NA = {
 "C01": "'the expansion type-checks without warnings' is a judgement of rustc's static semantics over a token stream produced by syn/quote code; no function contract reachable by Verus or Kani states it (DESIGN 1.1, 6)",
 "C11": "which instantiations an impl applies to is trait resolution over where-clauses; neither Verus nor Kani has a contract language for type-level applicability and the predicate builder is syn code (DESIGN 6)",
 "C12": "impl headers / where-clauses are types, not run-time behaviour of any function; out of reach of contracts (DESIGN 6)",
 "C13": "rejection happens inside the syn-driven attribute scanners; no pure function that can be cut out carries it (DESIGN 6)",
 "C16": "determinism across processes is about HashMap iteration inside the generator; stating it needs the syn/quote handler under contract, which neither verifier can ingest (DESIGN 6)",
 "C18": "a quantifier over 4095 cargo feature sets of the build; not a function contract (DESIGN 6)",
 "C19": "name resolution and hygiene of emitted identifiers is static semantics, not a pre/postcondition (DESIGN 6)",
}
checks = []
for pid in sorted(props.PROPS):
    sp = props.PROPS[pid]
    checks.append({
        "property_id": pid,
        "quick_cmd": "./check %s --tier quick" % pid,
        "thorough_cmd": "./check %s --tier thorough" % pid,
        "evidence_file": "evidence/%s.json" % pid,
        "replay_cmd_template": "./check %s --replay {path}" % pid,
        "engine": sp.get("engine", "verus+kani"),
        "technique": sp.get("technique", "contract-based deductive verification: Verus postconditions on the real macro expansions (extracted mechanically each run) + Kani/CBMC loop-free full-domain harnesses on the real derive"),
        "level_claimed": {"category": "proof",
                          "text": sp.get("level_text", sp.get("explanation", "")) + " — proved for all values per enumerated program; the program quantifier is a stated finite family (coverage.family), not proved.",
                          "design_ref": "DESIGN.md §5 " + pid},
        "level_note": "; ".join(sp.get("trusted", []) + sp.get("assumptions", []) + props.TRUSTED_COMMON),
    })
for k in list(NA):
    if k in props.PROPS:
        del NA[k]
m = {"version": 1,
     "setup_cmd": "python3 -c 'import vf.main' && verus --version >/dev/null && cargo kani --version >/dev/null",
     "hooks": {"guard": "magiclen_educe_verif",
               "enable": "no source hooks: checks build the real proc-macro from /repo's working tree (path dependency, cargo fingerprints of educe dropped each run) and read its expansion with rustc -Zunpretty=expanded",
               "baseline_off_cmd": "cd /repo && cargo test --workspace --no-fail-fast --offline",
               "source_commits": [], "add_only": True},
     "engines": [{"name": "verus", "path": "vf/run.py", "serves_properties": sorted(p for p in props.PROPS if props.PROPS[p].get("verus", True)),
                  "kind_free_text": "Verus 0.2026.09.13 (Z3): postconditions / spec impls attached to the verbatim generated impls"},
                 {"name": "kani", "path": "vf/run.py", "serves_properties": sorted(p for p in props.PROPS if props.PROPS[p].get("kani", True)),
                  "kind_free_text": "Kani 0.68 / CBMC 6.11: loop-free full-domain harnesses over the real derive; concrete playback for counterexamples"}],
     "checks": checks,
     "not_applicable": [{"property_id": k, "reason": v} for k, v in sorted(NA.items())],
     "notes": "exit 0 = every obligation discharged; exit 1 + VIOLATION line = an obligation refuted for a semantic reason; exit 2 (stderr only) = undecided (tool limit, expansion no longer compiles, lost anchor, canary not refuted). Repairs of genuine defects: known_findings.json (fixed: C04 7e159ec, C17 b3b7e52)."}
json.dump(m, open(os.path.join(HERE, "MANIFEST.json"), "w"), indent=1)
print("checks:", [c["property_id"] for c in checks], "n/a:", sorted(NA))
