"""Debug (C06, partial): the builder-call trace of the generated fmt is exactly the one the
effective shape prescribes (assumed contracts on core::fmt's builders).  Verus only; fields with a
custom method and the nameless struct-style (debug_map) form are outside Verus' subset."""
from .emit import Unit, hdr, conj, dedup, trait_of


def tname(P):
    """type name shown: None if disabled"""
    n = P.s("debug", "name", "default")
    if n == "default":
        return P.name if P.kind != "enum" else None
    if n is True:
        return P.name
    if n is False:
        return None
    return n


def vname(P, v):
    if P.kind != "enum":
        return tname(P)
    t = tname(P)
    n = v.s("debug", "name", True)
    vn = v.name if n is True else (None if n is False else n)
    if t is not None:
        return "%s::%s" % (t, vn) if vn is not None else t
    return vn


def style(P, v):
    """'struct' | 'tuple' | 'unit'"""
    nf = v.s("debug", "named_field", None)
    if nf is None:
        nf = P.s("debug", "named_field", None)
    shown = [f for f in v.fields if not f.s("debug", "ignore", False)]
    if v.kind == "unit":
        return "unit"
    if nf is None:
        nf = v.kind == "named"
    return "struct" if nf else "tuple"


def shown(v):
    return [f for f in v.fields if not f.s("debug", "ignore", False)]


def key(f):
    k = f.s("debug", "key")
    if k:
        return k
    return f.name if f.name is not None else "_%d" % f.idx


def verus(P, impls, u, prop="C06"):
    ims = [im for im in impls if trait_of(im) == "Debug"]
    if len(ims) != 1:
        u.skip_verus = "expected one Debug impl"
        return u
    if not P.variants:
        u.skip_verus = "empty enum"
        return u
    arms = []
    for v in P.variants:
        nm = vname(P, v)
        st = style(P, v)
        fs = shown(v)
        if any(f.s("debug", "method") for f in fs):
            u.skip_verus = "a shown field uses a custom method: the expansion declares an item inside fn fmt (outside Verus' subset)"
            return u
        if st == "unit":
            e = 'wr(f_state(old({p1})), "%s"@)' % nm
        elif st == "struct":
            if nm is None:
                u.skip_verus = "nameless struct-style form uses debug_map with an item declared inside fn fmt (outside Verus' subset)"
                return u
            e = 'ts_start(f_state(old({p1})), "%s"@)' % nm
            for f in fs:
                e = 'ts_field(%s, "%s"@, dyn_id(&x%d))' % (e, key(f), f.idx)
            e = "sfin(%s)" % e
        else:
            e = 'tt_start(f_state(old({p1})), "%s"@)' % (nm or "")
            for f in fs:
                e = "tt_field(%s, dyn_id(&x%d))" % (e, f.idx)
            e = "tfin(%s)" % e
        arms.append("%s => %s," % (P.pat(v, "x", only={f.idx for f in fs}), e))
    u.verus_edits[("Debug", "fmt")] = "r == (match *{p0} { %s })" % " ".join(arms)
    u.verus_obls["%s::fmt" % P.name] = ("%s/%s/Debug::fmt/ensures" % (prop, P.pid),
                                        "fmt's builder trace == match self { %s }" % " ".join(a.replace("{p1}", "f") for a in arms))
    return u


def kani(P, u, prop):
    """no Kani harness (core::fmt does not terminate under CBMC); a native oracle for the replay only"""
    if not P.variants:
        return
    arms = []
    for v in P.variants:
        nm = vname(P, v)
        st = style(P, v)
        fs = shown(v)
        def val(f):
            m = f.s("debug", "method")
            return ("&crate::src::ViaFn(x%d, %s)" % (f.idx, m)) if m else ("x%d" % f.idx)
        if st == "unit":
            b = 'f.write_str("%s")' % nm
        elif st == "struct" and nm is None:
            b = "{ let mut b = f.debug_map(); %s b.finish() }" % " ".join('b.entry(&crate::src::Raw("%s"), %s);' % (key(f), val(f)) for f in fs)
        elif st == "struct":
            b = '{ let mut b = f.debug_struct("%s"); %s b.finish() }' % (nm, " ".join('b.field("%s", %s);' % (key(f), val(f)) for f in fs))
        else:
            b = '{ let mut b = f.debug_tuple("%s"); %s b.finish() }' % (nm or "", " ".join("b.field(%s);" % val(f) for f in fs))
        arms.append("%s => %s," % (P.pat(v, "x", only={f.idx for f in fs}), b))
    u.kani_oracle.append("""/// core::fmt's own builders applied to the effective shape
pub struct Expected<'a>(pub &'a TI);
impl<'a> core::fmt::Debug for Expected<'a> {
    fn fmt(&self, f: &mut core::fmt::Formatter<'_>) -> core::fmt::Result {
        match self.0 {
            %s
        }
    }
}
""" % "\n            ".join(arms))
    u.replay.append('{ let x = oracle::mk(s); chk(out, "{:?}", format!("{:?}", x), format!("{:?}", oracle::Expected(&x))); chk(out, "{:#?}", format!("{:#?}", x), format!("{:#?}", oracle::Expected(&x))); }')
