#!/bin/sh
# usage: run.sh [path-to-educe-tree]; exit 0 = every form yields a spanned diagnostic, 1 = the macro panicked
cd "$(dirname "$0")"; R=${1:-/repo}
sed -i "s#path = \"[^\"]*\"#path = \"$R\"#" Cargo.toml; cp $R/Cargo.lock . 2>/dev/null || cp /repo/Cargo.lock .
mkdir -p src; bad=0
for a in 'Hash{}' 'Hash[]' 'PartialEq{}' 'PartialEq[]'; do
  printf 'use educe::Educe;\n#[derive(Educe)]\n#[educe(%s)]\npub union U { a: u8, b: u8 }\n' "$a" > src/lib.rs
  out=$(cargo check --offline 2>&1)
  if echo "$out" | grep -q "proc-macro derive panicked"; then echo "$a: VIOLATION: macro panicked ($(echo "$out" | grep message: | head -1))"; bad=1; else echo "$a: ok ($(echo "$out" | grep -o 'use `#\[educe([^`]*`' | head -1))"; fi
done
sed -i "s#path = \"[^\"]*\"#path = \"/repo\"#" Cargo.toml
exit $bad
