"""Unions (C20, partial): educed PartialEq / Hash / Clone operate on exactly the
size_of::<Self>() bytes of the value.  Kani only (raw byte views are outside Verus).  The
harness loops run over the fixed object size with unwinding assertions on, so a pass is a
complete proof for that union, not a bounded one."""
from .emit import Unit


def kani(P, u, prop):
    n = P.s("union", "size")
    u.kani_oracle.append("""pub const N: usize = %d;
pub fn bytes(x: &TI) -> [u8; N] { unsafe { core::mem::transmute_copy::<TI, [u8; N]>(x) } }
pub fn size_ok() -> bool { core::mem::size_of::<TI>() == N }
""" % n)
    if "PartialEq" in P.focus:
        u.kani_harness.append("""
#[kani::proof]
#[kani::unwind(%d)]
pub fn union_eq_h() {
    assert!(oracle::size_ok());
    let a = oracle::mk(&mut KaniSrc); let b = oracle::mk(&mut KaniSrc);
    let r = a == b;
    assert!(r == (oracle::bytes(&a) == oracle::bytes(&b)), "contract: a == b  <=>  the size_of::<Self>() bytes are equal");
    assert!((a != b) == !r, "contract: != is the negation");
    kani::cover!(true);
}
""" % (n + 2))
        u.kani_obls["union_eq_h"] = ("%s/%s/PartialEq::eq/contract" % (prop, P.pid), "(a == b) == (bytes(a) == bytes(b)) over exactly size_of::<Self>() bytes; CBMC pointer checks forbid a longer view")
        u.replay.append('{ let a = oracle::mk(s); let b = oracle::mk(s); chk(out, "a == b", a == b, oracle::bytes(&a) == oracle::bytes(&b)); }')
    if "Hash" in P.focus:
        u.kani_oracle.append("""pub fn hash_rec(x: &TI) -> crate::src::Rec { let mut r = crate::src::Rec::new(); core::hash::Hash::hash(x, &mut r); r }
/// one length-prefixed byte-slice write of the value's bytes
pub fn hash_expected(x: &TI) -> crate::src::Rec { let mut r = crate::src::Rec::new(); let b = bytes(x); core::hash::Hash::hash(&b[..], &mut r); r }
""")
        u.kani_harness.append("""
#[kani::proof]
#[kani::unwind(34)]
pub fn union_hash_h() {
    let a = oracle::mk(&mut KaniSrc);
    let (r, e) = (oracle::hash_rec(&a), oracle::hash_expected(&a));
    assert!(!r.overflow && !e.overflow, "recorder capacity");
    assert!(r == e, "contract: Hash feeds exactly the size_of::<Self>() bytes as one byte slice");
    kani::cover!(true);
}
""")
        u.kani_obls["union_hash_h"] = ("%s/%s/Hash::hash/contract" % (prop, P.pid), "recorded hasher calls == those of hashing the byte slice bytes(a)[..]")
        u.replay.append('{ let a = oracle::mk(s); chk(out, "hash data", oracle::hash_rec(&a), oracle::hash_expected(&a)); }')
    if "Clone" in P.focus:
        u.kani_harness.append("""
#[kani::proof]
#[kani::unwind(%d)]
pub fn union_clone_h() {
    let a = oracle::mk(&mut KaniSrc);
    let c = Clone::clone(&a);
    assert!(oracle::bytes(&c) == oracle::bytes(&a), "contract: clone is a bitwise copy");
    oracle::needs_copy::<TI>();
    kani::cover!(true);
}
""" % (n + 2))
        u.kani_oracle.append("pub fn needs_copy<T: Copy>() {}\n")
        u.kani_obls["union_clone_h"] = ("%s/%s/Clone::clone/contract" % (prop, P.pid), "bytes(a.clone()) == bytes(a); the union is Copy")
        u.replay.append('{ let a = oracle::mk(s); let c = Clone::clone(&a); chk(out, "bytes(a.clone())", oracle::bytes(&c), oracle::bytes(&a)); }')
