"""Minimal Rust lexer + item splitter for rustc's `-Zunpretty=expanded` output.

Only what the splitter needs: balanced-delimiter matching that is not fooled by
string/char literals, lifetimes and comments; cutting `impl` items out of a module
body; cutting a method signature from its body.  Nothing here interprets the code.
"""
import re

class LexError(Exception):
    pass

_ident = re.compile(r"[A-Za-z_][A-Za-z0-9_]*")
_num = re.compile(r"[0-9][A-Za-z0-9_.]*")
_ws = re.compile(r"\s+")


def lex(s):
    """-> list of (kind, text, start, end); kinds: id num str chr life punct"""
    out = []
    i, n = 0, len(s)
    while i < n:
        c = s[i]
        m = _ws.match(s, i)
        if m:
            i = m.end()
            continue
        if s.startswith("//", i):
            j = s.find("\n", i)
            i = n if j < 0 else j
            continue
        if s.startswith("/*", i):
            depth, j = 1, i + 2
            while depth and j < n:
                if s.startswith("/*", j):
                    depth += 1; j += 2
                elif s.startswith("*/", j):
                    depth -= 1; j += 2
                else:
                    j += 1
            i = j
            continue
        # raw strings  r"..."  r#"..."#  br#""#
        m = re.compile(r"b?r(#*)\"").match(s, i)
        if m:
            close = '"' + m.group(1)
            j = s.find(close, m.end())
            if j < 0:
                raise LexError("unterminated raw string at %d" % i)
            out.append(("str", s[i:j + len(close)], i, j + len(close)))
            i = j + len(close)
            continue
        if c == '"' or (c == 'b' and s.startswith('b"', i)):
            j = i + (2 if c == 'b' else 1)
            while j < n and s[j] != '"':
                j += 2 if s[j] == '\\' else 1
            out.append(("str", s[i:j + 1], i, j + 1))
            i = j + 1
            continue
        if c == "'" or (c == 'b' and s.startswith("b'", i)):
            k = i + (1 if c == 'b' else 0)
            # char literal or lifetime
            if k + 1 < n and s[k + 1] == '\\':
                j = s.find("'", k + 3)
                # '\'' special case
                if s[k + 2] == "'":
                    j = k + 3
                out.append(("chr", s[i:j + 1], i, j + 1)); i = j + 1; continue
            if k + 2 < n and s[k + 2] == "'":
                out.append(("chr", s[i:k + 3], i, k + 3)); i = k + 3; continue
            m = _ident.match(s, k + 1)
            if m and c == "'":
                out.append(("life", s[i:m.end()], i, m.end())); i = m.end(); continue
            # multi-byte char literal
            j = s.find("'", k + 1)
            if j < 0:
                raise LexError("bad quote at %d" % i)
            out.append(("chr", s[i:j + 1], i, j + 1)); i = j + 1; continue
        m = _ident.match(s, i)
        if m:
            out.append(("id", m.group(), i, m.end())); i = m.end(); continue
        m = _num.match(s, i)
        if m:
            out.append(("num", m.group(), i, m.end())); i = m.end(); continue
        for p in ("::", "->", "=>", "..=", "..", "&&", "||", "==", "!=", "<=", ">="):
            if s.startswith(p, i):
                out.append(("punct", p, i, i + len(p))); i += len(p); break
        else:
            out.append(("punct", c, i, i + 1)); i += 1
    return out

OPEN = {"{": "}", "(": ")", "[": "]"}
CLOSE = {v: k for k, v in OPEN.items()}


def match_close(toks, i):
    """toks[i] is an opening delimiter; return index of its closing token."""
    depth = 0
    for j in range(i, len(toks)):
        t = toks[j][1]
        if toks[j][0] != "punct":
            continue
        if t in OPEN:
            depth += 1
        elif t in CLOSE:
            depth -= 1
            if depth == 0:
                return j
    raise LexError("unbalanced delimiter")


def split_modules(text, prefix="p"):
    """top-level `pub mod <prefix>NNNN { ... }` -> {name: body_text}"""
    toks = lex(text)
    mods = {}
    i, depth = 0, 0
    while i < len(toks):
        k, t = toks[i][0], toks[i][1]
        if k == "punct" and t in OPEN:
            i = match_close(toks, i) + 1
            continue
        if k == "id" and t == "mod" and i + 2 < len(toks) and toks[i + 2][1] == "{":
            name = toks[i + 1][1]
            j = match_close(toks, i + 2)
            if name.startswith(prefix):
                mods[name] = text[toks[i + 2][3]:toks[j][2]]
            i = j + 1
            continue
        i += 1
    return mods


def split_items(body):
    """top-level items of a module body -> list of item texts (attributes included)."""
    toks = lex(body)
    items = []
    i = 0
    start = None
    while i < len(toks):
        k, t, a, b = toks[i]
        if start is None:
            start = a
        if k == "punct" and t == "#":
            # attribute: # [ ... ]   or  # ! [ ... ]
            j = i + 1
            if toks[j][1] == "!":
                j += 1
            j = match_close(toks, j)
            i = j + 1
            continue
        if k == "punct" and t in ("(", "["):
            i = match_close(toks, i) + 1
            continue
        if k == "punct" and t == "{":
            j = match_close(toks, i)
            # enum with explicit discriminants / struct tuple end with ';' handled below;
            # a brace closes the item unless followed by '=' (cannot happen at item level)
            items.append(body[start:toks[j][3]])
            start = None
            i = j + 1
            continue
        if k == "punct" and t == ";":
            items.append(body[start:b])
            start = None
            i += 1
            continue
        i += 1
    return items


def _first_kw(item):
    """first keyword after attributes / visibility"""
    toks = lex(item)
    i = 0
    while i < len(toks):
        k, t = toks[i][0], toks[i][1]
        if t == "#":
            j = i + 1
            if toks[j][1] == "!":
                j += 1
            i = match_close(toks, j) + 1
            continue
        if t == "pub":
            i += 1
            if i < len(toks) and toks[i][1] == "(":
                i = match_close(toks, i) + 1
            continue
        if t in ("unsafe", "default"):
            i += 1
            continue
        return t, toks, i
    return None, toks, i


class Method:
    def __init__(self, name, attrs_sig, ret, body, sig_span, full):
        self.name = name          # fn name
        self.sig = attrs_sig      # text from first attribute up to (not incl.) the body '{'
        self.ret = ret            # return type text or None
        self.body = body          # text of `{ ... }`
        self.full = full


class Impl:
    def __init__(self):
        self.text = ""
        self.generics = ""     # text inside impl<...> (without angle brackets), may be ""
        self.trait = None      # trait path text without leading '::', e.g. core::cmp::PartialEq ; None for inherent
        self.trait_args = ""   # generic args of the trait, e.g. "u16" for Into<u16>
        self.self_ty = ""
        self.where = ""        # where-clause predicates text (without `where`)
        self.body = ""         # inside braces
        self.methods = []
        self.is_unsafe = False


def _angle_close(toks, i):
    """toks[i] == '<' : index of the matching '>' (treat '->' as not an angle)."""
    depth = 0
    j = i
    while j < len(toks):
        t = toks[j][1]
        if toks[j][0] == "punct":
            if t in OPEN:
                j = match_close(toks, j) + 1
                continue
            if t == "<":
                depth += 1
            elif t == ">":
                depth -= 1
                if depth == 0:
                    return j
        j += 1
    raise LexError("unbalanced <>")


def parse_impl(item):
    kw, toks, i = _first_kw(item)
    if kw != "impl":
        return None
    im = Impl()
    im.text = item
    im.is_unsafe = any(t[1] == "unsafe" for t in toks[:i])
    i += 1
    if toks[i][1] == "<":
        j = _angle_close(toks, i)
        im.generics = item[toks[i][3]:toks[j][2]].strip()
        i = j + 1
    # scan until `{` at depth 0, noting `for` and `where`
    hdr_start = toks[i][2]
    j = i
    for_at = where_at = None
    while True:
        t = toks[j][1]
        if toks[j][0] == "punct" and t == "<":
            j = _angle_close(toks, j) + 1
            continue
        if toks[j][0] == "punct" and t in ("(", "["):
            j = match_close(toks, j) + 1
            continue
        if toks[j][0] == "id" and t == "for" and for_at is None and where_at is None:
            for_at = j
        if toks[j][0] == "id" and t == "where" and where_at is None:
            where_at = j
        if toks[j][0] == "punct" and t == "{":
            break
        j += 1
    brace = j
    end_hdr = toks[where_at][2] if where_at is not None else toks[brace][2]
    if for_at is not None:
        trait_txt = item[hdr_start:toks[for_at][2]].strip()
        im.self_ty = item[toks[for_at][3]:end_hdr].strip()
        if trait_txt.startswith("::"):
            trait_txt = trait_txt[2:]
        m = re.match(r"([A-Za-z0-9_:]+)\s*(?:<(.*)>)?\s*$", trait_txt, re.S)
        if not m:
            raise LexError("cannot parse trait path: " + trait_txt)
        im.trait = m.group(1)
        im.trait_args = (m.group(2) or "").strip()
    else:
        im.self_ty = item[hdr_start:end_hdr].strip()
    if where_at is not None:
        im.where = item[toks[where_at][3]:toks[brace][2]].strip()
    close = match_close(toks, brace)
    im.body = item[toks[brace][3]:toks[close][2]]
    # methods
    base = toks[brace][3]
    btoks = toks[brace + 1:close]
    k = 0
    mstart = None
    while k < len(btoks):
        kind, t, a, b = btoks[k]
        if mstart is None:
            mstart = a
        if kind == "punct" and t == "#":
            k = match_close(btoks, k + 1) + 1
            continue
        if kind == "id" and t == "fn":
            name = btoks[k + 1][1]
            # find body brace
            q = k + 2
            arrow = None
            while True:
                tt = btoks[q][1]
                if btoks[q][0] == "punct" and tt == "<":
                    q = _angle_close(btoks, q) + 1
                    continue
                if btoks[q][0] == "punct" and tt in ("(", "["):
                    q = match_close(btoks, q) + 1
                    continue
                if btoks[q][0] == "punct" and tt == "->":
                    arrow = q
                if btoks[q][0] == "punct" and tt == "{":
                    break
                q += 1
            qe = match_close(btoks, q)
            ret = item[btoks[arrow][3]:btoks[q][2]].strip() if arrow is not None else None
            sig = item[mstart:btoks[q][2]]
            body = item[btoks[q][2]:btoks[qe][3]]
            im.methods.append(Method(name, sig, ret, body, None, item[mstart:btoks[qe][3]]))
            k = qe + 1
            mstart = None
            continue
        if kind == "punct" and t in OPEN:
            k = match_close(btoks, k) + 1
            continue
        if kind == "punct" and t == ";":
            mstart = None
        k += 1
    return im


def impls_of_module(body):
    out = []
    for it in split_items(body):
        im = parse_impl(it)
        if im is not None:
            out.append(im)
    return out


def strip_outer_attrs(text):
    """remove leading #[...] attributes of an item/method signature; return (attrs, rest)."""
    toks = lex(text)
    i = 0
    while i < len(toks) and toks[i][1] == "#":
        i = match_close(toks, i + 1) + 1
    if i == 0:
        return "", text
    cut = toks[i][2] if i < len(toks) else len(text)
    return text[:cut], text[cut:]
