"""Property registry: family, engines, bounds, trusted base per property."""
from . import families
import re

TRUSTED_COMMON = [
    "rustc macro expansion and -Zunpretty=expanded print the proc-macro's tokens faithfully",
    "Verus 0.2026.09.13 / Z3; vstd specs for core impls on primitives",
    "Kani 0.68 / CBMC 6.11 memory model",
    "the splitter (vf/rs.py) and the oracle generator (vf/t_*.py), cross-checked by must-fail canaries each run",
]
ASSUMPTIONS_COMMON = [
    "program quantifier is enumerated (family bounds in coverage.family), value quantifier is proved",
    "custom methods are external_body with uninterpreted specs (Verus) / fixed asymmetric functions (Kani)",
    "isize/usize width abstract in Verus, 64-bit in Kani",
]


def _retag(ps, prop):
    for p in ps:
        p.tags["prop"] = prop
    return ps


def _c02(tier, seed):
    ps = families.c02(tier, seed) + families.wide("C02")
    ps = ps + families.uniform_twins(ps, 2 if tier == "quick" else 1) + families.adv_twins(ps, 4 if tier == "quick" else 2) + families.selfadv_twins(ps)
    ps = ps + families.own_placements("C02", ps) + families.own_spellings("C02", "PartialEq") + families.bound_twins(ps) + families.foreign_attr_twins(ps)
    # PartialEq educed next to PartialOrd / Ord whose fields carry ignore / method / rank: `==` still compares every field
    import copy as _copy
    extra = []
    for q in [p for p in families.c03(tier, seed) if any(f.s("ord", "ignore") or f.s("ord", "method") for v in p.variants for f in v.fields)][::9][:14]:
        q = _copy.deepcopy(q)
        q.tags.pop("frozen_src", None)
        q.pid = "po" + q.pid[1:]
        q.focus = {"PartialEq"}
        q.note = "PartialEq next to attributes of the ordering traits: " + q.note
        extra.append(q)
    ps = ps + _retag(extra, "C02")
    return ps + families.canaries_eq(ps)


def _c03(tier, seed):
    ps = families.c03(tier, seed) + families.wide("C03")
    ps = ps + families.uniform_twins(ps, 2 if tier == "quick" else 1) + families.adv_twins(ps, 4 if tier == "quick" else 2) + families.selfadv_twins(ps)
    ps = ps + families.own_placements("C03", ps) + families.own_spellings("C03", "Ord") + families.bound_twins(ps) + families.foreign_attr_twins(ps)
    return ps + families.canaries_ord(ps)


def _c05(tier, seed):
    ps = families.c05(tier, seed) + families.wide("C05")
    ps = ps + families.uniform_twins(ps, 2 if tier == "quick" else 1) + families.adv_twins(ps, 4 if tier == "quick" else 2) + families.selfadv_twins(ps)
    ps = ps + families.own_placements("C05", ps) + families.own_spellings("C05", "Hash") + families.bound_twins(ps, genericize=True) + families.foreign_attr_twins(ps)
    return ps + families.canaries_hash(ps)


def _c07(tier, seed):
    ps = families.c07(tier, seed) + families.wide("C07")
    ps = ps + families.uniform_twins(ps, 2 if tier == "quick" else 1) + families.adv_twins(ps, 4 if tier == "quick" else 2) + families.selfadv_twins(ps)
    ps = ps + families.own_placements("C07", ps) + families.bound_twins(ps) + families.bound_twins([p for p in ps if p.s("clone", "copy")], limit=5, suffix="c") + families.foreign_attr_twins(ps)
    return ps + families.canaries_clone(ps)


def _c08(tier, seed):
    ps = families.c08(tier, seed)
    ps = ps + families.selfadv_twins(ps, 7, 8)
    ps = ps + families.own_placements("C08", ps, 6) + families.bound_twins(ps, genericize=True) + families.foreign_attr_twins(ps, 4)
    return ps + families.canaries_default(ps)


def _c09(tier, seed):
    ps = families.c09(tier, seed) + families.wide("C09")
    ps = ps + families.own_placements("C09", ps) + families.foreign_attr_twins(ps, 4)
    return ps + families.canaries_deref(ps)


def _c10(tier, seed):
    ps = families.c10(tier, seed) + families.wide("C10")
    ps = ps + families.own_placements("C10", ps) + families.foreign_attr_twins(ps, 4)
    return ps + families.canaries_into(ps)


def _c15(tier, seed):
    ps = [families.add_hash_twin(p) for p in families.c15(tier, seed)]
    cs = families.canaries_eq([p for p in ps if "PartialEq" in p.focus and not p.tags.get("no_verus")]) \
        + families.canaries_deref([p for p in ps if "DerefMut" in p.focus])
    return ps + _retag(cs, "C15")


def _c04_aux(job):
    from . import aux_c04
    aux_c04.run(job)


def _c04(tier, seed):
    ps = families.c04(tier, seed)
    # same-variant clause: multi-field named variants with hostile same-typed names (the layout grid has one field per variant)
    ps = ps + _retag([p for p in families.wide("C03") if "same-typed fields" in p.note], "C04")
    return ps + families.canaries_c04(ps)


def _c06(tier, seed):
    ps = families.c06(tier, seed) + families.wide("C06")
    # the native replay instantiates every third generic program with a compound value type: its own Debug output
    # depends on the formatter's flags ({:#?}), so a path that loses them shows up (Verus is parametric in the type)
    for i, p in enumerate(ps):
        nameless = "name=False" in (p.note or "") or any(v.s("debug", "name") is False for v in p.variants)
        if p.generics and (i % 3 == 0 or nameless) and all(re.match(r"^T\d$", g) for g in p.generics):
            for g in (p.generics if nameless else p.generics[:1]):
                p.inst[g] = "Option<u8>"
    ps = ps + families.own_placements("C06", ps) + families.own_spellings("C06", "Debug") + families.bound_twins(ps) + families.foreign_attr_twins(ps)
    return ps + families.canaries_debug(ps)


def _c20(tier, seed):
    ps = families.c20(tier, seed)
    return ps + families.canaries_c20(ps)


def _c17(prop, tier, seed, args):
    from . import c17
    return c17.run(prop, tier, seed, args)


PROPS = {
    "C14": {
        "family": lambda tier, seed: families.c14(tier, seed) + families.c14_placements(tier) + _retag(families.canaries_eq([p for p in families.c14(tier, seed) if "PartialEq" in p.focus][:8]), "C14"),
        "bounds": {"quick": "per trait one fixed meaning x every documented spelling: ignore (4 forms) x method (4 forms) [x rank (4 forms, negative/positive)] for PartialEq (carrier PartialEq/Eq), Ord/PartialOrd (3 carriers), Hash; Clone/Into method forms; Default value (5) x new (4) forms + type-level (4); Debug type name (9) x key (7) forms (half), name/named_field bool forms, variant name forms; joined vs split #[educe] attributes, trait order, parameter order; placement family: for ~8 programs of each of C02/C03/C05/C06/C07/C08/C09/C10 the contracted trait's field attribute next to another educed trait's entry, in the same list before/after it or in a separate #[educe] attribute before/after it",
                   "thorough": "all Debug type x key combinations"},
        "trusted": [], "assumptions": ["weaker than stated: behavioural equality of every spelling under one shared contract, not token identity of the generated code; `bound` spellings (no run-time effect) are not covered"],
        "explanation": "every member of a spelling group satisfies the single contract generated from the group's meaning; a mis-parsed spelling falls back to default behaviour and fails its postcondition",
    },
    "C15": {
        "family": lambda tier, seed: _c15(tier, seed),
        "bounds": {"quick": "structured part: 20 single-trait field attributes (every carrier spelling) x named/tuple x struct/enum, all of {Debug, PartialEq, Eq, PartialOrd, Ord, Hash, Clone, Default} educed; packed part: 8 packed structs with an address-sensitive eq method with/without Copy/Clone; Deref part: 20 structs/enums educing Deref + DerefMut (markers on different same-typed fields that also carry another trait's attribute) next to PartialEq/Hash/Debug/Clone/PartialOrd; field-less enums with explicit discriminants x 4 trait sets (12); every non-generic member with Hash carries the Hash-only twin obligation; random part: 24 programs (structs and 2-3 variant enums, 1-3 fields of u8/u16/bool) educing all or a random subset (reordered, joined or split) of {Debug, PartialEq, Eq, PartialOrd, Ord, Hash, Clone, Default, Into(u16)}; every field draws an independent random attribute per trait (ignore/method/rank/rename/expression/marker)",
                   "thorough": "120 programs"},
        "trusted": [], "assumptions": ["weaker than stated: each trait's contract is generated from that trait's attributes alone and must hold whatever the other traits carry; token-level 'impl unchanged' is not decided",
                                       "the random part is a seeded pseudo-random family (VERIF_SEED); must-fail canaries: PartialEq (2) and Deref (2) members with a mutated meaning"],
        "explanation": "per-trait contracts under adversarial attributes of every other trait on the same fields; Hash additionally feeds exactly the data of the same type educing Hash alone",
    },
    "C17": {
        "custom": _c17, "engine": "kani+verus",
        "technique": "Kani (bounded string length) on the mechanically extracted diagnostic string builders; Verus (unbounded) on the extracted discriminant-type selection arithmetic",
        "level_text": "narrow: panic-freedom of the pure helper fragments that can be cut out of the generator; the string builders are a BOUNDED check (ASCII tail <= 14 bytes), the selection arithmetic is proved",
        "trusted": ["rustc's proc-macro printer renders the attribute meta as `Name` / `Name(...)` with no space before `(` (measured through the real macro)"],
        "assumptions": ["narrow: parsing, `unwrap()` on get_ident(), `parse2(..).unwrap()`, recursion depth and termination of everything driven by syn are NOT decided",
                        "call-site precondition: for Hash/PartialEq on a union every parameter other than `unsafe` is rejected before the builder runs, so s is `Name`, `Name()`, `Name {}` or `Name []` (the three list delimiters, as rustc renders them)",
                        "non-ASCII text can only occur inside the parenthesised tail, beyond every index the builders touch"],
        "explanation": "union_without_unsafe string surgery cannot panic under the call-site precondition (bounded); discriminant width selection fits and is minimal, min/max/counter step cannot overflow (proved)",
    },
    "C20": {
        "family": _c20, "engine": "kani+verus",
        "technique": "Kani/CBMC full-domain harnesses on the real union derives of ==, Hash, Clone, Default (byte views, pointer checks; loops only over the fixed object size with unwinding assertions); Verus on the verbatim union Debug impl with two constructs replaced by stubs",
        "bounds": {"quick": "15 unions (sizes 0-16, 1-3 fields, alignment tails, repr(align), generics at T=u32 / (u8, u16), Adv-typed fields) x 5 trait sets {PartialEq, Hash, Clone+Copy, all, Clone with std Copy}; Debug on unions: the same 15 unions x 6 spellings of {default name, custom name, no name} (a third of the grid, every union with size != alignment in both forms); Default on unions: 1-3 fields x marker x with/without expression",
                   "thorough": "6 trait sets; the whole Debug grid"},
        "trusted": ["CBMC memory model for raw byte views",
                    "Debug on unions: `unsafe { slice::from_raw_parts(self as *const Self as *const u8, n) }` is replaced by the stub bytes_view(self, n) (assumed: it denotes the n bytes at self) and the final `Debug::fmt(<slice>, f)` by the stub slice_debug_fmt (assumed: the slice's own Debug); vstd's size_of / align_of specs for core::mem::size_of / align_of"],
        "assumptions": ["partial: 'generated only behind unsafe' (a rejection, cf. C13) is NOT decided",
                        "Debug on unions has no Kani side (core::fmt does not terminate under CBMC): a failed Verus obligation becomes a violation only when the native replay ({:?} and {:#?} against core::fmt's own builders over the value's bytes) shows a different output, otherwise it is undecided",
                        "unions with padding between fields are outside the family (their padding bytes are uninitialised); alignment tails are inside",
                        "harness loops (memcmp / byte copy) run over the fixed object size with unwinding assertions on"],
        "explanation": "union ==/hash/clone are byte-exact over size_of::<Self>() bytes, for all byte patterns; default() initialises the designated field; Debug prints the (custom) type name, or nothing, and exactly the size_of::<Self>() bytes as one slice",
    },
    "C06": {
        "family": _c06, "kani": False, "engine": "verus",
        "bounds": {"quick": "custom-method fields and the nameless map form (42 structs, 2 enums); structs named/tuple/unit n<=3 x type name {default, custom, disabled} x named_field {default, flipped} x up to 6 field assignments over {plain, ignore, renamed key}; enums: 10 variant-kind combinations x enum name {off, on, renamed} x 3 variant-name rotations {default, disabled, custom} with named_field flips; every spelling of each parameter in rotation",
                   "thorough": "n<=4, all field assignments; +60 sampled enums"},
        "trusted": ["assume_specification for Formatter::{write_str, debug_struct, debug_tuple}, DebugStruct::{field, finish}, DebugTuple::{field, finish}: they thread an uninterpreted call trace",
                    "assume_specification for Formatter::debug_map, DebugMap::{entry, finish}",
                    "two axioms about core::fmt: a builder finished with no field writes exactly its name"],
        "assumptions": ["custom-method fields (u8) and the nameless struct-style (debug_map) form declare helper items inside fn fmt, which Verus rejects; they are brought in by a mechanical hoisting transform (items cut out verbatim into `mod hoisted`, made pub, block-local names numbered, an ensures added on their own fmt) plus one ASSUMED bridging axiom per helper type (the dyn identity of an Educe__RawString value is its string; of an Educe__DebugField value it is (method, field value)); the helper's own fmt is verified against the method's contract",
                        "nameless tuple-style enum variants are outside the family (they do not compile on the pinned tree, C01)",
                        "byte-identity with #[derive(Debug)] is not checked directly; it follows from the oracle being std's documented builder sequence",
                        "no Kani side: core::fmt does not terminate under CBMC (measured > 15 min for one struct); a failed obligation is replayed natively ({:?} and {:#?} against core::fmt's builders on the effective shape)"],
        "explanation": "generated Debug::fmt verified verbatim: its builder-call trace (for every formatter state, hence compact and pretty) equals the effective shape's",
    },
    "C04": {
        "family": _c04, "aux": _c04_aux,
        "bounds": {"quick": "generic-payload enums: 13 discriminant configurations x legal reprs x 7 variant shapes (1-4 variants), every third + all of b128/nonmono/b255; concrete layout grid: 10 payload kinds (u8,bool,char,&u8,NonZeroU8,Option<u8>,nested enum,(),[u8;0],u32) x 8 shapes + 7 specials; every 4th also through a #[repr(C)] wrapper with symbolic neighbour bytes",
                   "thorough": "all generic configurations; 14 shapes per payload kind"},
        "trusted": ["Kani's pinned nightly lays the grid enums out like the user's toolchain (irrelevant while the expansion contains no raw read)"],
        "assumptions": ["declared discriminant computed by the generator from the program (explicit = n, else predecessor + 1)"],
        "explanation": "cross-variant order == declared-discriminant order: Verus proves the verbatim generated cmp/partial_cmp generically in the payload (safe code cannot observe layout); Kani proves it on rustc's actual layouts incl. niches, single-variant and zero-sized enums, with CBMC pointer checks",
    },
    "C10": {
        "family": _c10,
        "bounds": {"quick": "sole-field structs x 9 (field type, 1-3 targets) x {plain, method} x {named,tuple}; 8 multi-field layouts x designation choices (marker / unique type, <=8 each) x {plain, method}; enums 1-4 variants x {1,2} targets with per-variant designation",
                   "thorough": "all designation combinations; +60 sampled enums"},
        "trusted": ["vstd IntoSpecImpl/FromSpec for integer widenings"], "assumptions": ["'for no other T' is a type-level fact and is not decided"],
        "explanation": "each generated Into<T>::into verified verbatim against the designated field / method / conversion (IntoSpecImpl), Kani mirrors it on the real derive",
    },
    "C09": {
        "family": _c09,
        "bounds": {"quick": "structs named/tuple n<=3 x every Deref marker position x every DerefMut marker position (or none); reference-typed designated fields; enums 1-3 variants of 1-3 fields with differing marker positions, with/without DerefMut; all fields share one type so only position distinguishes them",
                   "thorough": "n<=4; +60 sampled enums"},
        "trusted": [], "assumptions": ["address identity is decided by Kani on the u8 twin; Verus decides value + frame generically in the field type"],
        "explanation": "generated deref/deref_mut verified verbatim: value of the designated field, frame of deref_mut; Kani: pointer identity and write-through frame",
    },
    "C08": {
        "family": _c08,
        "bounds": {"quick": "16 literal kinds x 2 spellings x position in 1-3 field structs; 3-literal neighbours; type-level expressions x 3 spellings; enums 1-4 variants x every marker position x 2 kind rotations; unions 1-3 fields x marker x with/without expression; with/without new",
                   "thorough": "all 5 spellings, 5 kind rotations, 5-variant enums"},
        "trusted": ["vstd specs for Default::default on primitives and From/Into between integers"],
        "assumptions": ["no inputs: the quantifier is over programs only; each proof is an evaluation",
                        "float / str / String / user-From / union values are decided by Kani only"],
        "explanation": "generated Default::default (and new) verified verbatim against the designated value",
    },
    "C07": {
        "family": _c07,
        "bounds": {"quick": "structs named/tuple n<=3 all 2^n {own clone, method} x {Clone, Clone+Copy}; enums 1-4 variants x {Clone, Clone+Copy}",
                   "thorough": "n<=5; +80 sampled enums"},
        "trusted": ["vstd `cloned` as the spec of Clone::clone on a type parameter"],
        "assumptions": ["clone_from is outside Verus' subset (dropped from the Verus copy, logged); decided by Kani for all ordered pairs (a, b) of the concrete twin",
                        "once-ness observed through counted Clone impls of the field type (Kani)"],
        "explanation": "generated Clone::clone verified verbatim (generic T: Clone) against the field-wise oracle; Kani: clone value + per-slot clone counts + clone_from for all (a,b) + Copy instantiation",
    },
    "C05": {
        "family": _c05,
        "bounds": {"quick": "structs named/tuple n<=3 all 3^n {none,ignore,method}; enums 1-5 variants over {unit,tuple1,tuple2,named2,named3,tuple3}; field types u8,u16,u32,bool,K(abstract)",
                   "thorough": "n<=4; +100 sampled enums 3-6 variants"},
        "trusted": ["assume_specification for <u8|u16|u32|bool|usize|isize as Hash>::hash: one h_push of an uninterpreted hv_T(value) (Verus side)",
                    "K::hash external_body with uninterpreted hv_k (stand-in for an arbitrary field type; Verus rejects Hash::hash on a type parameter)"],
        "assumptions": ["variant tag pinned as hv_usize(declaration index) in the Verus contract (taken from the code); the Kani contract is tag-agnostic"],
        "explanation": "generated Hash::hash verified verbatim for all hashers H against an abstract call trace; Kani: recording hasher, fed data equal iff variant and compared-field data equal",
    },
    "C03": {
        "family": _c03,
        "bounds": {"quick": "structs named/tuple n<=3 all 3^n {none,ignore,method}; rank permutations n=2,3 x 3 value schemes x 4 spellings; enums 1-3 variants",
                   "thorough": "n<=4; +100 sampled enums 3-5 variants"},
        "trusted": [], "assumptions": [],
        "explanation": "generated Ord::cmp / PartialOrd::partial_cmp verified verbatim against the rank-ordered lexicographic oracle",
    },
    "C02": {
        "family": _c02,
        "bounds": {"quick": "structs named/tuple n<=3 all 3^n {none,ignore,method} assignments; enums 1-3 variants over {unit,tuple1,tuple2,named2}",
                   "thorough": "structs n<=4 exhaustive; +120 sampled enums with 3-5 variants, m<=3"},
        "trusted": [], "assumptions": [],
        "explanation": "generated PartialEq::eq verified verbatim (Verus, generic field types) against the field-wise oracle; Kani on the real derive for concrete twins incl. f32 NaN",
    },
}
