"""Common machinery for contract emitters: the Unit record, header handling, signature
edits (annotation in place), Verus module assembly."""
import re
from . import rs

TRAIT_PATHS = {
    "core::cmp::PartialEq": "PartialEq", "core::cmp::Eq": "Eq", "core::cmp::PartialOrd": "PartialOrd",
    "core::cmp::Ord": "Ord", "core::hash::Hash": "Hash", "core::fmt::Debug": "Debug",
    "core::clone::Clone": "Clone", "core::marker::Copy": "Copy", "core::default::Default": "Default",
    "core::ops::Deref": "Deref", "core::ops::DerefMut": "DerefMut", "core::convert::Into": "Into",
}
SUPER = {"Ord": ["PartialOrd", "Eq", "PartialEq"], "PartialOrd": ["PartialEq"], "Eq": ["PartialEq"],
         "Copy": ["Clone"], "DerefMut": ["Deref"]}


def trait_of(im):
    if im.trait is None:
        return "inherent"
    return TRAIT_PATHS.get(im.trait, im.trait)


def closure(focus):
    out = set(focus)
    todo = list(focus)
    while todo:
        t = todo.pop()
        for s in SUPER.get(t, []):
            if s not in out:
                out.add(s); todo.append(s)
    return out


class Unit:
    def __init__(self, prop, trait):
        self.prop = prop
        self.trait = trait
        self.verus_items = []        # text items appended to the module
        self.verus_edits = {}        # (trait, method[, trait_args]) -> ensures text ({p0},{p1}.. = param names)
        self.verus_drop = set()      # (trait, method) dropped from the pasted impl
        self.verus_obls = {}         # verus function suffix (after `<file>::<pid>::`) -> (obligation name, contract text)
        self.kani_oracle = []
        self.kani_harness = []
        self.kani_obls = {}          # harness fn name -> (obligation name, contract text)
        self.kani_bounded = {}       # harness fn name -> bound description (unwound harnesses)
        self.replay = []             # statements of fn replay
        self.edits_log = []
        self.skip_verus = None       # reason if the Verus side is not applicable for this program


def hdr(im, ty_generic):
    """(generics text incl. <>, where text incl. `where`, where for free fns)"""
    g = "<%s>" % im.generics if im.generics else ""
    # predicates on Self (e.g. `Self: Eq` on the Ord impl) are not repeated on the generated spec
    # free spec fns: an `E: Eq` bound on the spec fns behind E's own spec impls makes Verus treat
    # E's eq_spec as opaque (measured: every exit of the verbatim `eq` then fails)
    allp = [q.strip() for q in split_top(im.where) if q.strip()]
    preds = [q for q in allp if not re.match(r"Self\s*:", q)]
    w = ("where " + ", ".join(allp)) if allp else ""                 # spec impls: same header as the generated impl
    wf = ("where " + ", ".join(preds)) if preds else ""               # free spec fns / lemmas: no predicate on the type itself
    wf = re.sub(r"\bSelf\b", ty_generic, wf)
    return g, w, wf


def split_top(text):
    """split at top-level commas"""
    toks = rs.lex(text)
    out, depth, last = [], 0, 0
    i = 0
    while i < len(toks):
        t = toks[i]
        if t[0] == "punct" and t[1] in rs.OPEN:
            i = rs.match_close(toks, i) + 1
            continue
        if t[0] == "punct" and t[1] == "<":
            i = rs._angle_close(toks, i) + 1
            continue
        if t[0] == "punct" and t[1] == ",":
            out.append(text[last:t[2]]); last = t[3]
        i += 1
    out.append(text[last:])
    return out


def param_names(sig):
    toks = rs.lex(sig)
    for i, t in enumerate(toks):
        if t[1] == "fn":
            break
    j = i + 2
    if toks[j][1] == "<":
        j = rs._angle_close(toks, j) + 1
    assert toks[j][1] == "(", sig
    e = rs.match_close(toks, j)
    names = []
    depth = 0
    cur = []
    k = j + 1
    while k < e:
        t = toks[k]
        if t[0] == "punct" and t[1] in rs.OPEN:
            kk = rs.match_close(toks, k)
            cur.extend(toks[k:kk + 1]); k = kk + 1; continue
        if t[0] == "punct" and t[1] == "<":
            kk = rs._angle_close(toks, k)
            cur.extend(toks[k:kk + 1]); k = kk + 1; continue
        if t[0] == "punct" and t[1] == ",":
            names.append(cur); cur = []
        else:
            cur.append(t)
        k += 1
    if cur:
        names.append(cur)
    out = []
    for p in names:
        ids = [t[1] for t in p]
        if "self" in ids[:3]:
            out.append("self")
        else:
            out.append(next(t[1] for t in p if t[0] == "id" and t[1] != "mut"))
    return out


def edit_sig(mt, ensures):
    """annotation in place: only the return position of the signature is rewritten."""
    names = param_names(mt.sig)
    ens = ensures
    for i, n in enumerate(names):
        ens = ens.replace("{p%d}" % i, n)
    sig = mt.sig.rstrip()
    if mt.ret is not None:
        k = sig.rfind("->")
        sig = sig[:k] + "-> (r: %s)" % mt.ret
    return sig + "\n            ensures " + ens + "\n        "


def render_impl(im, unit_edits, unit_drop, log):
    text = im.text
    tr = trait_of(im)
    for mt in im.methods:
        key = (tr, mt.name)
        key2 = (tr, mt.name, re.sub(r"\s+", "", im.trait_args))
        if key in unit_drop:
            assert text.count(mt.full) == 1
            text = text.replace(mt.full, "/* dropped by extraction: fn %s (outside Verus' subset) */" % mt.name)
            log.append("dropped method %s::%s" % (tr, mt.name))
            continue
        ens = unit_edits.get(key2, unit_edits.get(key))
        if ens is not None:
            assert text.count(mt.sig) == 1, "signature anchor not unique"
            text = text.replace(mt.sig, edit_sig(mt, ens))
            log.append("injected ensures on %s::%s" % (tr, mt.name))
    return text


def conj(xs, empty="true"):
    xs = [x for x in xs if x]
    if not xs:
        return empty
    return " && ".join("(%s)" % x for x in xs)


def dedup(xs):
    out = []
    for x in xs:
        if x not in out:
            out.append(x)
    return out


def indent(s, n=4):
    pad = " " * n
    return "\n".join(pad + l if l.strip() else l for l in s.splitlines())
