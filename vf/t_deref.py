"""Deref / DerefMut (C09): &*x is the designated field of the live variant (its referent for a
reference-typed field); &mut *x the DerefMut-designated one, and writing through it changes
that field and nothing else."""
from .emit import Unit, hdr, conj, dedup, trait_of

COVERS = ["Deref", "DerefMut"]


def desig(v, group):
    if len(v.fields) == 1:
        return v.fields[0]
    ms = [f for f in v.fields if f.s(group, "mark")]
    return ms[0] if ms else None


def is_ref(f):
    return f.ty.strip().startswith("&")


def verus(P, impls, u, prop="C09"):
    ims = [im for im in impls if trait_of(im) == "Deref"]
    imm = [im for im in impls if trait_of(im) == "DerefMut"]
    if len(ims) != 1:
        u.skip_verus = "expected one Deref impl"
        return u
    ty = P.ty_generic()
    im = ims[0]
    g, w, wf = hdr(im, ty)
    arms = []
    for v in P.variants:
        d = desig(v, "deref")
        arms.append("%s => %sx%d," % (P.pat(v, "x"), "*" if is_ref(d) else "", d.idx))
    u.verus_edits[("Deref", "deref")] = "*r == (match *{p0} { %s })" % " ".join(arms)
    u.verus_obls["%s::deref" % P.name] = ("%s/%s/Deref::deref/ensures" % (prop, P.pid), "*deref(x) == match x { %s }" % " ".join(arms))
    if "DerefMut" in P.focus and len(imm) == 1:
        marms = []
        for v in P.variants:
            d = desig(v, "deref_mut")
            ts = ["*r == x%d" % d.idx, "y%d == *final(r)" % d.idx] + ["y%d == x%d" % (f.idx, f.idx) for f in v.fields if f is not d]
            marms.append("(%s, %s) => %s," % (P.pat(v, "x"), P.pat(v, "y"), conj(ts)))
        u.verus_edits[("DerefMut", "deref_mut")] = "match (*old({p0}), *final({p0})) { %s _ => false }" % " ".join(marms)
        u.verus_obls["%s::deref_mut" % P.name] = ("%s/%s/DerefMut::deref_mut/ensures" % (prop, P.pid),
                                                  "deref_mut: r is the designated field; frame: match (old, final) { %s _ => false }" % " ".join(marms))
    return u


def kani(P, u, prop):
    if not P.variants:
        return
    tgt = P.s("deref", "target_inst", "u8")
    arms = []
    for v in P.variants:
        d = desig(v, "deref")
        arms.append("%s => %s as *const %s," % (P.pat(v, "x"), ("(**x%d).as_ptr()" if "[u8]" in d.ty and is_ref(d) and "Box" not in d.ty else "&**x%d" if is_ref(d) else "x%d") % d.idx, tgt))
    u.kani_oracle.append("/// address of the storage &*x must point at\npub fn deref_addr(x: &TI) -> *const %s {\n    match x {\n        %s\n    }\n}\n" % (tgt, "\n        ".join(arms)))
    u.kani_harness.append("""
#[kani::proof]
pub fn deref_h() {
    let x = oracle::mk(&mut KaniSrc);
    let p = (&*x) as *const _ as *const %s;     // whatever Target is, the address must be the designated storage
    assert!(p == oracle::deref_addr(&x), "contract: &*x has the address of the designated field (its referent for a reference field)");
    kani::cover!(true);
}
""" % tgt)
    u.kani_obls["deref_h"] = ("%s/%s/Deref::deref/contract" % (prop, P.pid), "&*x as *const _ == address of the designated field of the live variant")
    u.replay.append('{ let x = oracle::mk(s); let p = (&*x) as *const _ as *const %s; chk(out, "&*x is the designated field", p == oracle::deref_addr(&x), true); }' % tgt)
    if "DerefMut" in P.focus and any(is_ref(f) for v in P.variants for f in v.fields):
        # reference-typed fields cannot be copied into an expected value: address + write-through only
        marms = []
        for v in P.variants:
            d = desig(v, "deref_mut")
            marms.append("%s => %s as *const %s," % (P.pat(v, "x"), ("&**x%d" if is_ref(d) else "x%d") % d.idx, tgt))
        u.kani_oracle.append("pub fn deref_mut_addr(x: &TI) -> *const %s {\n    match x {\n        %s\n    }\n}\n" % (tgt, "\n        ".join(marms)))
        u.kani_harness.append("""
#[kani::proof]
pub fn deref_mut_h() {
    let mut x = oracle::mk(&mut KaniSrc);
    let v: %s = <%s as Val>::draw(&mut KaniSrc);
    let q = oracle::deref_mut_addr(&x);
    let p = (&mut *x) as *mut _ as *const %s;
    assert!(p == q, "contract: &mut *x has the address of the DerefMut-designated storage (the referent for a reference field)");
    *x = v;
    assert!(oracle::deref_mut_addr(&x) == q && unsafe { *q } == v, "contract: writing through &mut *x reaches that storage");
    kani::cover!(true);
}
""" % (tgt, tgt, tgt))
        u.kani_obls["deref_mut_h"] = ("%s/%s/DerefMut::deref_mut/contract" % (prop, P.pid), "&mut *x is the designated storage; *x = v writes it")
        u.replay.append('{ let mut x = oracle::mk(s); let v: %s = <%s as Val>::draw(s); let q = oracle::deref_mut_addr(&x);\n'
                        '      let p = (&mut *x) as *mut _ as *const %s; chk(out, "&mut *x is the designated storage", p == q, true); *x = v;\n'
                        '      chk(out, "*x = v reaches it", unsafe { *q } == v, true); }' % (tgt, tgt, tgt))
    elif "DerefMut" in P.focus:
        marms, earms, sarms = [], [], []
        for v in P.variants:
            d = desig(v, "deref_mut")
            marms.append("%s => x%d as *const %s," % (P.pat(v, "x"), d.idx, tgt))
            vals = ["v" if f is d else "*x%d" % f.idx for f in v.fields]
            earms.append("%s => %s," % (P.pat(v, "x"), P.build(v, vals)))
            sarms.append("(%s, %s) => %s," % (P.pat(v, "x"), P.pat(v, "y"), conj(["*x%d == *y%d" % (f.idx, f.idx) for f in v.fields])))
        u.kani_oracle.append("pub fn deref_mut_addr(x: &TI) -> *const %s {\n    match x {\n        %s\n    }\n}\n" % (tgt, "\n        ".join(marms)))
        u.kani_oracle.append("/// x with the DerefMut-designated field replaced by v, everything else unchanged\npub fn with_target(x: &TI, v: %s) -> TI {\n    match x {\n        %s\n    }\n}\n" % (tgt, "\n        ".join(earms)))
        u.kani_oracle.append("pub fn same_d(x: &TI, y: &TI) -> bool {\n    match (x, y) {\n        %s\n        _ => false,\n    }\n}\n" % "\n        ".join(sarms))
        u.kani_harness.append("""
#[kani::proof]
pub fn deref_mut_h() {
    let mut x = oracle::mk(&mut KaniSrc);
    let v: %s = <%s as Val>::draw(&mut KaniSrc);
    let want = oracle::with_target(&x, Clone::clone(&v));
    let q = oracle::deref_mut_addr(&x);
    let p = (&mut *x) as *mut _ as *const %s;
    assert!(p == q, "contract: &mut *x has the address of the DerefMut-designated field");
    *x = v;
    assert!(oracle::same_d(&x, &want), "contract: writing through &mut *x changes that field and nothing else");
    kani::cover!(true);
}
""" % (tgt, tgt, tgt))
        u.kani_obls["deref_mut_h"] = ("%s/%s/DerefMut::deref_mut/contract" % (prop, P.pid), "&mut *x is the designated field; *x = v changes only it")
        u.replay.append('{ let mut x = oracle::mk(s); let v: %s = <%s as Val>::draw(s); let want = oracle::with_target(&x, Clone::clone(&v)); let q = oracle::deref_mut_addr(&x);\n'
                        '      let p = (&mut *x) as *mut _ as *const %s; chk(out, "&mut *x is the designated field", p == q, true); *x = v;\n'
                        '      chk(out, "*x = v changes only that field", oracle::same_d(&x, &want), true); }' % (tgt, tgt, tgt))
