"""Debug (C06, partial): the builder-call trace of the generated fmt is exactly the one the
effective shape prescribes (assumed contracts on core::fmt's builders).  Verus only; fields with a
custom method and the nameless struct-style (debug_map) form are outside Verus' subset."""
from .emit import Unit, hdr, conj, dedup, trait_of


def tname(P):
    """type name shown: None if disabled"""
    n = P.s("debug", "name", "default")
    if n == "default":
        return P.name if P.kind != "enum" else None
    if n is True:
        return P.name
    if n is False:
        return None
    return n


def vname(P, v):
    if P.kind != "enum":
        return tname(P)
    t = tname(P)
    n = v.s("debug", "name", True)
    vn = v.name if n is True else (None if n is False else n)
    if t is not None:
        return "%s::%s" % (t, vn) if vn is not None else t
    return vn


def style(P, v):
    """'struct' | 'tuple' | 'unit'"""
    nf = v.s("debug", "named_field", None)
    if nf is None:
        nf = P.s("debug", "named_field", None)
    shown = [f for f in v.fields if not f.s("debug", "ignore", False)]
    if v.kind == "unit":
        return "unit"
    if nf is None:
        nf = v.kind == "named"
    return "struct" if nf else "tuple"


def shown(v):
    return [f for f in v.fields if not f.s("debug", "ignore", False)]


def key(f):
    k = f.s("debug", "key")
    if k:
        return k
    return f.name if f.name is not None else "_%d" % f.idx


MID = {"crate::m::fmt_a": "crate::m::mid_fmt_a()", "crate::m::fmt_b": "crate::m::mid_fmt_b()", "crate::m::fmt_g": "crate::m::mid_fmt_g()"}


def _item_expr(f, var):
    m = f.s("debug", "method")
    if m:
        return "method_item(%s, %s as int)" % (MID[m], var)
    return "dyn_id(&%s)" % var


def post_render(P, text, log):
    """mechanical hoisting of the helper items educe declares *inside* fn fmt (Verus rejects items in
    function bodies): `Educe__RawString` (+ its Debug impl) and, per method field, `Educe__DebugField`
    (+ its Debug impl).  The items are cut out verbatim, made pub, renamed `_k` where a block-local
    name is reused, given an `ensures` on their own fmt, and placed in `mod hoisted` together with one
    bridging axiom each (dyn identity of the helper value).  Returns (text, extra module items)."""
    from . import rs
    import re
    P.tags["broadcast"] = []
    if "Educe__RawString" not in text and "Educe__DebugField" not in text:
        return text, ""
    hoisted, axioms, names = [], [], []
    k = 0
    guard = 0
    while True:
        guard += 1
        if guard > 200:
            raise ValueError("hoist: did not converge")
        toks = rs.lex(text)
        hit = None
        for i, t in enumerate(toks):
            if t[0] == "id" and t[1] == "struct" and i + 1 < len(toks) and toks[i + 1][1] in ("Educe__RawString", "Educe__DebugField"):
                hit = i
                break
        if hit is None:
            break
        name = toks[hit + 1][1]
        # item 1: optional preceding attribute .. ';'
        start = hit
        if hit >= 2 and toks[hit - 1][1] == "]":
            # walk back over one attribute  # [ ... ]
            j = hit - 1
            depth = 0
            while j >= 0:
                if toks[j][1] == "]": depth += 1
                if toks[j][1] == "[":
                    depth -= 1
                    if depth == 0: break
                j -= 1
            if j >= 1 and toks[j - 1][1] == "#":
                start = j - 1
        e1 = next(j for j in range(hit, len(toks)) if toks[j][1] == ";" )
        # item 2: impl ... for <name> ... { ... }
        if toks[e1 + 1][1] != "impl":
            raise ValueError("hoist: expected the Debug impl after struct " + name)
        b = next(j for j in range(e1 + 1, len(toks)) if toks[j][1] == "{")
        e2 = rs.match_close(toks, b)
        item1 = text[toks[start][2]:toks[e1][3]]
        item2 = text[toks[e1 + 1][2]:toks[e2][3]]
        rest_before = text[:toks[start][2]]
        rest_after = text[toks[e2][3]:]
        if name == "Educe__RawString":
            text = rest_before + rest_after
            if "Educe__RawString" in names:
                if item2.split() != names_raw_impl.split():
                    raise ValueError("hoist: differing Educe__RawString impls")
                continue
            names.append("Educe__RawString")
            names_raw_impl = item2
            it1 = re.sub(r"struct\s+Educe__RawString\s*\(", "pub struct Educe__RawString(pub ", item1)
            it2 = re.sub(r"->\s*::core::fmt::Result\s*\{", "-> (r: ::core::fmt::Result)\n            ensures r == wr(f_state(old(f)), self.0@)\n        {", item2, count=1)
            hoisted += [it1, it2]
            axioms.append(("bridge_raw", "pub broadcast axiom fn bridge_raw(x: &Educe__RawString) ensures #[trigger] dyn_id(x) == raw_key(x.0@);"))
            log.append("hoisted Educe__RawString + its Debug impl out of fn fmt (made pub, ensures added on its fmt, bridging axiom added)")
        else:
            k += 1
            new = "Educe__DebugField_%d" % k
            # the block's tail expression uses the block-local name once more
            m = re.search(r"\bEduce__DebugField\s*\(", rest_after)
            if not m:
                raise ValueError("hoist: constructor use of Educe__DebugField not found")
            rest_after = rest_after[:m.start()] + new + "(" + rest_after[m.end():]
            text = rest_before + rest_after
            im = rs.parse_impl(item2)
            mm = re.search(r"([A-Za-z_][A-Za-z0-9_:]*)\s*\(\s*self\s*\.\s*0\s*,\s*educe__f\s*\)", item2)
            if not mm or mm.group(1) not in MID:
                raise ValueError("hoist: method call of Educe__DebugField impl not recognised")
            meth = mm.group(1)
            if "&u8" not in re.sub(r"\s+", "", im.self_ty):
                raise ValueError("hoist: only u8 method fields are supported")
            it1 = re.sub(r"struct\s+Educe__DebugField\s*<\s*V\s*,\s*M\s*>\s*\(\s*V\s*,", "pub struct %s<V, M>(pub V, pub " % new, item1)
            it2 = item2.replace("Educe__DebugField", new)
            it2 = re.sub(r"->\s*::core::fmt::Result\s*\{", "-> (r: ::core::fmt::Result)\n            ensures r == %s_spec(*self.0, f_state(old(educe__f)))\n        {" % meth, it2, count=1)
            hoisted += [it1, it2]
            g = "<%s>" % im.generics if im.generics else ""
            axioms.append(("bridge_%d" % k, "pub broadcast axiom fn bridge_%d%s(x: &%s) ensures #[trigger] dyn_id(x) == method_item(%s, *x.0 as int);"
                           % (k, g, im.self_ty.replace("Educe__DebugField", new), MID[meth])))
            log.append("hoisted Educe__DebugField (#%d, method %s) + its Debug impl out of fn fmt (renamed %s, made pub, ensures added on its fmt, bridging axiom added)" % (k, meth, new))
    extra = "pub mod hoisted {\n    use super::*;\n%s\n%s\n}\nuse hoisted::*;\n" % ("\n".join(hoisted), "\n".join(a for _, a in axioms))
    P.tags["broadcast"] = ["hoisted::" + n for n, _ in axioms]
    return text, extra


def verus(P, impls, u, prop="C06"):
    ims = [im for im in impls if trait_of(im) == "Debug"]
    if len(ims) != 1:
        u.skip_verus = "expected one Debug impl"
        return u
    if not P.variants:
        u.skip_verus = "empty enum"
        return u
    arms = []
    for v in P.variants:
        nm = vname(P, v)
        st = style(P, v)
        fs = shown(v)
        if any(f.s("debug", "method") and f.ty != "u8" for f in fs):
            u.skip_verus = "custom method on a non-u8 field: the hoisting transform only handles u8 method fields"
            return u
        if st == "unit":
            e = 'wr(f_state(old({p1})), "%s"@)' % nm
        elif st == "struct":
            if nm is None:
                e = "tm_start(f_state(old({p1})))"
                for f in fs:
                    e = 'tm_entry(%s, raw_key("%s"@), %s)' % (e, key(f), _item_expr(f, "x%d" % f.idx))
                e = "mfin(%s)" % e
            else:
                e = 'ts_start(f_state(old({p1})), "%s"@)' % nm
                for f in fs:
                    e = 'ts_field(%s, "%s"@, %s)' % (e, key(f), _item_expr(f, "x%d" % f.idx))
                e = "sfin(%s)" % e
        else:
            e = 'tt_start(f_state(old({p1})), "%s"@)' % (nm or "")
            for f in fs:
                e = "tt_field(%s, %s)" % (e, _item_expr(f, "x%d" % f.idx))
            e = "tfin(%s)" % e
        arms.append("%s => %s," % (P.pat(v, "x", only={f.idx for f in fs}), e))
    u.verus_edits[("Debug", "fmt")] = "r == (match *{p0} { %s })" % " ".join(arms)
    u.verus_obls["%s::fmt" % P.name] = ("%s/%s/Debug::fmt/ensures" % (prop, P.pid),
                                        "fmt's builder trace == match self { %s }" % " ".join(a.replace("{p1}", "f") for a in arms))
    return u


def kani(P, u, prop):
    """no Kani harness (core::fmt does not terminate under CBMC); a native oracle for the replay only"""
    if not P.variants:
        return
    arms = []
    for v in P.variants:
        nm = vname(P, v)
        st = style(P, v)
        fs = shown(v)
        def val(f):
            m = f.s("debug", "method")
            return ("&crate::src::ViaFn(x%d, %s)" % (f.idx, m)) if m else ("x%d" % f.idx)
        if st == "unit":
            b = 'f.write_str("%s")' % nm
        elif st == "struct" and nm is None:
            b = "{ let mut b = f.debug_map(); %s b.finish() }" % " ".join('b.entry(&crate::src::Raw("%s"), %s);' % (key(f), val(f)) for f in fs)
        elif st == "struct":
            b = '{ let mut b = f.debug_struct("%s"); %s b.finish() }' % (nm, " ".join('b.field("%s", %s);' % (key(f), val(f)) for f in fs))
        else:
            b = '{ let mut b = f.debug_tuple("%s"); %s b.finish() }' % (nm or "", " ".join("b.field(%s);" % val(f) for f in fs))
        arms.append("%s => %s," % (P.pat(v, "x", only={f.idx for f in fs}), b))
    u.kani_oracle.append("""/// core::fmt's own builders applied to the effective shape
pub struct Expected<'a>(pub &'a TI);
impl<'a> core::fmt::Debug for Expected<'a> {
    fn fmt(&self, f: &mut core::fmt::Formatter<'_>) -> core::fmt::Result {
        match self.0 {
            %s
        }
    }
}
""" % "\n            ".join(arms))
    u.replay.append('{ let x = oracle::mk(s); chk(out, "{:?}", format!("{:?}", x), format!("{:?}", oracle::Expected(&x))); chk(out, "{:#?}", format!("{:#?}", x), format!("{:#?}", oracle::Expected(&x))); }')
